#!/bin/bash
# MANIFEST.setup_cmd: overlay venv on /venv with z3-solver, crosshair-tool, cvc5 from the offline wheelhouse.
HERE="$(cd "$(dirname "$0")" && pwd)"
QUIET=0; [ "$1" = "--quiet" ] && QUIET=1
exec 9>"$HERE/.setup.lock"
flock 9
if [ ! -x "$HERE/.venv/bin/python" ] || ! "$HERE/.venv/bin/python" -c "import z3, crosshair, networkx, igraph, antlr4" 2>/dev/null; then
  rm -rf "$HERE/.venv"
  /venv/bin/python -m venv "$HERE/.venv" || exit 1
  SP=$("$HERE/.venv/bin/python" -c "import sysconfig; print(sysconfig.get_paths()['purelib'])")
  echo "import site; site.addsitedir('/venv/lib/python3.12/site-packages')" > "$SP/zz_venv_overlay.pth"
  PIP_NO_INDEX=1 "$HERE/.venv/bin/pip" install -q --no-index --find-links /opt/veriftools/wheels z3-solver crosshair-tool cvc5 >&2 || exit 1
fi
[ $QUIET = 1 ] || "$HERE/.venv/bin/python" -c "import z3, crosshair; print('venv ok: z3', z3.get_version_string())"
exit 0

import sys, cProfile, pstats
sys.path.insert(0,'/verif'); sys.path.insert(0,'/repo')
from symx.driver import load_body
from symx.explore import explore
if __name__ == "__main__":
    job={"module":"harness.pipeline","factory":"c01","params":dict(n=3,K_m=2,K_r=1,relist="atoms")}
    body=load_body(job)
    pr=cProfile.Profile(); pr.enable()
    jr=explore("p", body)
    pr.disable()
    print(jr.paths, jr.wall_s, jr.queries, jr.solver_s)
    pstats.Stats(pr).sort_stats("tottime").print_stats(22)

"""REF-V3000 / REF-V2000 printers and REF-V3000-READER, written from the BIOVIA CTfile
specification (2020).  Independent of tucan.  Numeric fields may be symbolic
(symx SymInt): they are formatted with f-strings, which yields placeholders."""
from __future__ import annotations

V3000_ATOM_KEYWORDS = ["CFG=1", "VAL=2", "HCOUNT=1", "STBOX=1", "INVRET=1", "EXACHG=1", "SUBST=2", "UNSAT=1",
                       "RBCNT=2", "ATTCHPT=1", "RGROUPS=(1 1)", "ATTCHORD=(2 2 Al)", "CLASS=AA", "SEQID=7"]
V3000_BOND_KEYWORDS = ["CFG=1", "TOPO=1", "RXCTR=4", "STBOX=1"]
COORDS = [0.0, -0.0, 1e-7, 12345.678901, -3.5, 1e22, -1e300]


def fmt_coord(x):
    """Decimal notation without exponent that float() reads back exactly."""
    x = float(x)
    if x == 0 or 1e-4 <= abs(x) < 1e16:
        return repr(x)
    if abs(x) >= 1e16:
        return "%.1f" % x
    s = "%.25f" % x
    return s.rstrip("0") + ("0" if s.rstrip("0").endswith(".") else "")


class A3:
    """One V3000 atom line."""

    def __init__(self, index, symbol, xyz=(0.0, 0.0, 0.0), props=(), aamap=0, extra=None, extra_pos=None):
        self.index, self.symbol, self.xyz, self.props = index, symbol, xyz, list(props)   # props: [(KEY, value)] in written order
        self.aamap, self.extra, self.extra_pos = aamap, extra, extra_pos


class B3:
    """One V3000 bond line."""

    def __init__(self, index, btype, a1, a2, endpts=None, attach="ANY", extra=None):
        self.index, self.btype, self.a1, self.a2, self.endpts, self.attach, self.extra = index, btype, a1, a2, endpts, attach, extra


def v3000_atom_tokens(a: A3):
    toks = [f"{a.index}", a.symbol] + [fmt_coord(v) for v in a.xyz] + [f"{a.aamap}"]
    props = [f"{k}={v}" for k, v in a.props]
    if a.extra is not None:
        pos = len(props) if a.extra_pos is None else a.extra_pos
        props.insert(pos, a.extra)
    return toks + props


def v3000_bond_tokens(b: B3):
    toks = [f"{b.index}", f"{b.btype}", f"{b.a1}", f"{b.a2}"]
    if b.extra is not None:
        toks.append(b.extra)
    if b.endpts is not None:
        ep = "ENDPTS=(" + " ".join([f"{len(b.endpts)}"] + [f"{e}" for e in b.endpts]) + ")"
        toks += [f"ATTACH={b.attach}", ep] if getattr(b, "attach_first", False) else [ep, f"ATTACH={b.attach}"]
    return toks


def join_tokens(toks, gap=None, gap_len=2):
    """Single blanks between tokens, except `gap_len` blanks after token number `gap`."""
    out = []
    for i, t in enumerate(toks):
        out.append(t)
        if i + 1 < len(toks):
            out.append(" " * (gap_len if gap == i else 1))
    return "".join(out)


def v3000_text(atoms, bonds, *, header=("", "  REF", ""), gaps=None, split=None, trailing=(), eol="\n",
               counts_extra="0 0 0", end_line="M  END"):
    """gaps: {line_no: (token_no, run_length)} for atom/bond lines (0-based over atoms then bonds);
    split: (line_no, column) — continue that logical line with a trailing dash at `column`
    (column counts characters of the body after 'M  V30 ')."""
    lines = list(header) + ["  0  0  0     0  0            999 V3000"]
    body = ["BEGIN CTAB", f"COUNTS {len(atoms)} {len(bonds)} {counts_extra}", "BEGIN ATOM"]
    gaps = gaps or {}
    k = 0
    logical = []
    for a in atoms:
        g = gaps.get(k)
        logical.append(join_tokens(v3000_atom_tokens(a), *(g or (None, 2))))
        k += 1
    body += logical
    body.append("END ATOM")
    blog = []
    if bonds:
        body.append("BEGIN BOND")
        for b in bonds:
            g = gaps.get(k)
            blog.append(join_tokens(v3000_bond_tokens(b), *(g or (None, 2))))
            k += 1
        body += blog
        body.append("END BOND")
    body += list(trailing)
    body.append("END CTAB")
    out = []
    target = None
    if split is not None:
        target = (logical + blog)[split[0]]
    for ln in body:
        if target is not None and ln is target:
            col = split[1]
            out.append("M  V30 " + ln[:col] + "-")
            out.append("M  V30 " + ln[col:])
            target = None
        else:
            out.append("M  V30 " + ln)
    lines += out
    lines.append(end_line)
    return eol.join(lines) + eol


# ---------------------------------------------------------------------------
# V2000

CHARGE_CODE = {3: 1, 2: 2, 1: 3, -1: 5, -2: 6, -3: 7}       # charge -> ccc   (4 = doublet radical)


def v2000_atom_line(symbol, xyz=(0.0, 0.0, 0.0), ccc=0, dd=0):
    x, y, z = xyz
    return f"{x:10.4f}{y:10.4f}{z:10.4f} {symbol:<3}{dd:2d}{ccc:3d}  0  0  0  0  0  0  0  0  0  0"


def v2000_bond_line(a1, a2, btype, stereo=0):
    return f"{a1:3d}{a2:3d}{btype:3}{stereo:3d}  0  0  0"


def v2000_prop_line(tag, entries):
    """M  CHG / M  RAD / M  ISO line with <= 8 (atom, value) entries."""
    assert 1 <= len(entries) <= 8
    return f"M  {tag}{len(entries):3d}" + "".join(f" {a:3d} {v:3}" for a, v in entries)


def v2000_text(atom_lines, bond_lines, prop_lines, *, header=("", "  REF", ""), atom_lists=(), eol="\n", chiral=0):
    counts = f"{len(atom_lines):3d}{len(bond_lines):3d}{len(atom_lists):3d}  0{chiral:3d}  0  0  0  0  0999 V2000"
    lines = list(header) + [counts] + list(atom_lines) + list(bond_lines) + list(atom_lists) + list(prop_lines) + ["M  END"]
    return eol.join(lines) + eol


# ---------------------------------------------------------------------------
# REF-V3000-READER: minimal independent reader (concrete text only)

class BadMolfile(Exception):
    pass


def read_v3000(text, to_int=int):
    """-> (atoms [(index, symbol, (x, y, z), {KEY: int})], bonds [(index, type, a1, a2, tokens)], problems)
    Checks the block structure and counts; joins continuation lines (trailing '-')."""
    raw = text.split("\n")
    if raw and raw[-1] == "":
        raw.pop()
    raw = [ln[:-1] if ln.endswith("\r") else ln for ln in raw]
    problems = []
    if len(raw) < 5 or not raw[3].rstrip().endswith("V3000"):
        raise BadMolfile("line 4 is not a V3000 counts line")
    if raw[-1] != "M  END":
        problems.append("last line is not 'M  END'")
    body, i = [], 4
    while i < len(raw) and raw[i].startswith("M  V30 "):
        ln = raw[i][7:]
        while ln.endswith("-"):
            i += 1
            if i >= len(raw) or not raw[i].startswith("M  V30 "):
                raise BadMolfile("continuation without a following 'M  V30 ' line")
            ln = ln[:-1] + raw[i][7:]
        body.append(ln)
        i += 1
    if i != len(raw) - 1:
        problems.append(f"unexpected line {i + 1}: {raw[i][:20]!r}")
    toks = [ln.split() for ln in body]
    if not toks or toks[0] != ["BEGIN", "CTAB"] or toks[-1] != ["END", "CTAB"]:
        raise BadMolfile("CTAB block not delimited")
    if len(toks) < 2 or toks[1][:1] != ["COUNTS"] or len(toks[1]) < 3:
        raise BadMolfile("no COUNTS line")
    na, nb = int(toks[1][1]), int(toks[1][2])
    if toks[2] != ["BEGIN", "ATOM"]:
        raise BadMolfile("no BEGIN ATOM")
    atoms = []
    j = 3
    while j < len(toks) and toks[j] != ["END", "ATOM"]:
        t = toks[j]
        props = {}
        for p in t[6:]:
            if "=" in p:
                k, v = p.split("=", 1)
                if k in ("CHG", "RAD", "MASS"):
                    props[k] = to_int(v)
        atoms.append((to_int(t[0]), t[1], (float(t[2]), float(t[3]), float(t[4])), props))
        j += 1
    if j == len(toks):
        raise BadMolfile("no END ATOM")
    j += 1
    bonds = []
    if j < len(toks) and toks[j] == ["BEGIN", "BOND"]:
        j += 1
        while j < len(toks) and toks[j] != ["END", "BOND"]:
            t = toks[j]
            bonds.append((to_int(t[0]), to_int(t[1]), to_int(t[2]), to_int(t[3]), t[4:]))
            j += 1
        if j == len(toks):
            raise BadMolfile("no END BOND")
        j += 1
    if len(atoms) != na:
        problems.append(f"COUNTS says {na} atoms, atom block has {len(atoms)}")
    if len(bonds) != nb:
        problems.append(f"COUNTS says {nb} bonds, bond block has {len(bonds)}")
    if toks[j:] != [["END", "CTAB"]]:
        problems.append("unexpected content between the last block and END CTAB")
    return atoms, bonds, problems

"""Periodic table, written out independently of tucan.element_attributes."""
SYMBOLS_BY_Z = """H He Li Be B C N O F Ne Na Mg Al Si P S Cl Ar K Ca Sc Ti V Cr Mn Fe Co Ni Cu Zn Ga Ge As Se Br Kr
Rb Sr Y Zr Nb Mo Tc Ru Rh Pd Ag Cd In Sn Sb Te I Xe Cs Ba La Ce Pr Nd Pm Sm Eu Gd Tb Dy Ho Er Tm Yb Lu Hf Ta W Re Os Ir
Pt Au Hg Tl Pb Bi Po At Rn Fr Ra Ac Th Pa U Np Pu Am Cm Bk Cf Es Fm Md No Lr Rf Db Sg Bh Hs Mt Ds Rg Cn Nh Fl Mc Lv Ts Og""".split()
assert len(SYMBOLS_BY_Z) == 118
Z_OF = {s: i + 1 for i, s in enumerate(SYMBOLS_BY_Z)}

# Slot order of the published EBNF (tucan.ebnf, rule without_carbon), transcribed by hand.
EBNF_WITHOUT_CARBON = """ac ag al am ar as at au b ba be bh bi bk br ca cd ce cf cl cm cn co cr cs cu db ds dy er es eu f fe fl
fm fr ga gd ge h he hf hg ho hs i in ir k kr la li lr lu lv mc md mg mn mo mt n na nb nd ne nh ni no np o og os p pa pb pd pm po
pr pt pu ra rb re rf rg rh rn ru s sb sc se sg si sm sn sr ta tb tc te th ti tl tm ts u v w xe y yb zn zr""".split()
# rule with_carbon: c h? then the same list without h
EBNF_WITH_CARBON = ["c", "h"] + [x for x in EBNF_WITHOUT_CARBON if x != "h"]
SLOTS_WITHOUT_CARBON = [x.capitalize() for x in EBNF_WITHOUT_CARBON]
SLOTS_WITH_CARBON = [x.capitalize() for x in EBNF_WITH_CARBON]
assert len(SLOTS_WITHOUT_CARBON) == 117 and len(SLOTS_WITH_CARBON) == 118
assert set(SLOTS_WITH_CARBON) == set(SYMBOLS_BY_Z)


def hill_formula(symbols):
    """Hill-order sum formula of a multiset of element symbols: C, H first when
    carbon is present, everything else alphabetically; count omitted when 1."""
    counts = {}
    for s in symbols:
        counts[s] = counts.get(s, 0) + 1
    order = []
    if "C" in counts:
        order.append("C")
        if "H" in counts:
            order.append("H")
        order += sorted(k for k in counts if k not in ("C", "H"))
    else:
        order = sorted(counts)
    return "".join(k + (str(counts[k]) if counts[k] > 1 else "") for k in order)

"""REF-ISO: brute-force enumeration of skeleton isomorphisms (colour = any hashable),
with degree/colour pruning.  Independent of networkx and tucan."""


def isomorphisms(n, colours1, edges1, colours2, edges2, limit=None):
    """All bijections phi: range(n)->range(n) with colours2[phi[a]] == colours1[a] and
    {phi a, phi b} in edges2 iff {a, b} in edges1."""
    e1 = {frozenset(e) for e in edges1}
    e2 = {frozenset(e) for e in edges2}
    if len(e1) != len(e2) or len(colours1) != n or len(colours2) != n:
        return []
    adj1 = [set() for _ in range(n)]
    adj2 = [set() for _ in range(n)]
    for a, b in (tuple(e) for e in e1):
        adj1[a].add(b); adj1[b].add(a)
    for a, b in (tuple(e) for e in e2):
        adj2[a].add(b); adj2[b].add(a)
    sig1 = [(colours1[a], len(adj1[a])) for a in range(n)]
    sig2 = [(colours2[a], len(adj2[a])) for a in range(n)]
    if sorted(map(repr, sig1)) != sorted(map(repr, sig2)):
        return []
    out = []
    phi = [None] * n
    used = [False] * n

    def rec(a):
        if limit is not None and len(out) >= limit:
            return
        if a == n:
            out.append(list(phi))
            return
        for b in range(n):
            if used[b] or sig2[b] != sig1[a]:
                continue
            ok = True
            for x in adj1[a]:
                if x < a and phi[x] not in adj2[b]:
                    ok = False
                    break
            if ok:
                cnt = sum(1 for x in adj1[a] if x < a)
                cnt2 = sum(1 for x in range(a) if phi[x] in adj2[b])
                if cnt != cnt2:
                    ok = False
            if ok:
                phi[a] = b
                used[b] = True
                rec(a + 1)
                used[b] = False
                phi[a] = None

    rec(0)
    return out


def automorphisms(n, colours, edges):
    return isomorphisms(n, colours, edges, colours, edges)

"""R_ref — the published EBNF (tucan.ebnf) as a z3 regular expression over token characters.
Transcribed by hand (slot lists in ref/elements.py); shares no code with the library.

tucan               ::= sum_formula "/" tuples ("/" node_attributes)?          (+ EOF)
sum_formula         ::= with_carbon | without_carbon
with_carbon         ::= c h? ac? ... zr?        without_carbon ::= ac? ... h? ... zr?
<element>           ::= "<Symbol>" count?       count ::= greater_than_one
tuple               ::= "(" node_index "-" node_index ")"
node_attribute      ::= "(" node_index ":" node_property ("," node_property)* ")"
node_property       ::= ("mass" | "rad") "=" greater_than_zero
greater_than_zero   ::= "1" | greater_than_one
greater_than_one    ::= "2".."9" | GREATER_THAN_NINE
"""
import z3

from ref.elements import SLOTS_WITH_CARBON, SLOTS_WITHOUT_CARBON


def build(tok, eof=True):
    """tok(name) -> the character of the token with that literal text (or 'GREATER_THAN_NINE', 'EOF')."""
    L = lambda name: z3.Re(z3.StringVal(tok(name)))
    U = lambda xs: xs[0] if len(xs) == 1 else z3.Union(*xs)
    gt1 = U([L(str(d)) for d in range(2, 10)] + [L("GREATER_THAN_NINE")])
    gt0 = z3.Union(L("1"), gt1)
    count = gt1
    elem = lambda sym: z3.Concat(L(sym), z3.Option(count))
    with_c = z3.Concat(elem(SLOTS_WITH_CARBON[0]), *[z3.Option(elem(s)) for s in SLOTS_WITH_CARBON[1:]])
    without_c = z3.Concat(*[z3.Option(elem(s)) for s in SLOTS_WITHOUT_CARBON])
    formula = z3.Union(with_c, without_c)
    tup = z3.Concat(L("("), gt0, L("-"), gt0, L(")"))
    prop = z3.Concat(z3.Union(L("mass"), L("rad")), L("="), gt0)
    attr = z3.Concat(L("("), gt0, L(":"), prop, z3.Star(z3.Concat(L(","), prop)), L(")"))
    parts = [formula, L("/"), z3.Star(tup), z3.Option(z3.Concat(L("/"), z3.Star(attr)))]
    if eof:
        parts.append(L("EOF"))
    return {"tucan": z3.Concat(*parts), "greater_than_zero": gt0, "greater_than_one": gt1, "count": count,
            "node_index": gt0, "node_property_value": gt0, "tuple": tup, "node_attribute": attr,
            "with_carbon": with_c, "without_carbon": without_c}

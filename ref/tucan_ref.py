"""REF-GRAMMAR / REF-DECODER / REF-LAYOUT — an independent reader of TUCAN strings
written from the published EBNF (tucan.ebnf).  Shares no code with tucan.

Works on concrete strings and on segment strings: a numeral may be a symbolic
term (3-code-point placeholder, see symx.strings); class membership (>= 1) then
becomes a condition handed back to the caller."""
from __future__ import annotations

from ref.elements import SYMBOLS_BY_Z, Z_OF, SLOTS_WITH_CARBON, SLOTS_WITHOUT_CARBON, hill_formula

PUNCT = ["/", "(", ")", "-", ":", ",", "="]
KEYWORDS = ["mass", "rad"]


class Reject(Exception):
    def __init__(self, reason, msg=""):
        super().__init__(f"{reason}: {msg}")
        self.reason = reason      # syntax | index | self-loop | duplicate-attribute


def tokenize(s, term_of=None):
    """Maximal munch over the EBNF terminals.  Tokens: ('EL', sym) ('P', ch) ('KW', kw)
    ('NUM', int | term).  Numerals: '1'..'9' or [1-9][0-9]+ (no leading zero, no '0')."""
    toks = []
    i, n = 0, len(s)
    while i < n:
        ch = s[i]
        if ch == "\ue000":
            if term_of is None or i + 2 >= n or s[i + 2] != "\ue001":
                raise Reject("syntax", "stray placeholder")
            toks.append(("NUM", term_of(s[i + 1])))
            i += 3
            continue
        if ch in PUNCT:
            toks.append(("P", ch)); i += 1; continue
        if "1" <= ch <= "9":
            j = i + 1
            while j < n and "0" <= s[j] <= "9":
                j += 1
            toks.append(("NUM", int(s[i:j]))); i = j; continue
        if s.startswith("mass", i):
            toks.append(("KW", "mass")); i += 4; continue
        if s.startswith("rad", i):
            toks.append(("KW", "rad")); i += 3; continue
        if i + 1 < n and s[i:i + 2] in Z_OF:
            toks.append(("EL", s[i:i + 2])); i += 2; continue
        if ch in Z_OF:
            toks.append(("EL", ch)); i += 1; continue
        raise Reject("syntax", f"no token at column {i}: {s[i:i+5]!r}")
    return toks


class Decoded:
    def __init__(self):
        self.formula = []        # [(symbol, count)] in written order
        self.tuples = []         # [(a, b)] 1-based as written
        self.blocks = []         # [(index, [(key, value)])]
        self.conds = []          # conditions on symbolic numerals (value >= 1)

    @property
    def n(self):
        return sum(c for _, c in self.formula)

    def elements(self):
        """Atoms in block order: the formula's atoms, stably sorted by atomic number."""
        atoms = [sym for sym, c in self.formula for _ in range(c)]
        return sorted(atoms, key=lambda s: Z_OF[s])


def parse(s, term_of=None, ge=None):
    """Recursive descent over the EBNF.  Returns Decoded or raises Reject('syntax').
    `ge(term, k)` builds the condition term >= k for symbolic numerals."""
    toks = tokenize(s, term_of)
    pos = 0
    d = Decoded()

    def peek(k=0):
        return toks[pos + k] if pos + k < len(toks) else ("EOF", None)

    def eat(kind, val=None):
        nonlocal pos
        t = peek()
        if t[0] != kind or (val is not None and t[1] != val):
            raise Reject("syntax", f"expected {kind} {val or ''} at token {pos}, found {t}")
        pos += 1
        return t[1]

    def numeral(minimum):
        v = eat("NUM")
        if isinstance(v, int):
            if v < minimum:
                raise Reject("syntax", f"numeral {v} < {minimum}")
        else:
            if ge is None:
                raise Reject("syntax", "symbolic numeral without a condition builder")
            d.conds.append(ge(v, minimum))
        return v

    # sum_formula ::= with_carbon | without_carbon
    slots = SLOTS_WITH_CARBON if peek() == ("EL", "C") else SLOTS_WITHOUT_CARBON
    si = 0
    while peek()[0] == "EL":
        sym = peek()[1]
        while si < len(slots) and slots[si] != sym:
            si += 1
        if si == len(slots):
            raise Reject("syntax", f"element {sym} out of Hill order or repeated")
        si += 1
        eat("EL")
        count = 1
        if peek()[0] == "NUM":
            count = numeral(2)
            if not isinstance(count, int):
                raise Reject("syntax", "symbolic count not supported by the reference")
        d.formula.append((sym, count))
    eat("P", "/")
    # tuples ::= tuple*      tuple ::= "(" node_index "-" node_index ")"
    while peek() == ("P", "("):
        eat("P", "("); a = numeral(1); eat("P", "-"); b = numeral(1); eat("P", ")")
        d.tuples.append((a, b))
    if peek() == ("P", "/"):
        eat("P", "/")
        # node_attribute ::= "(" node_index ":" node_property ("," node_property)* ")"
        while peek() == ("P", "("):
            eat("P", "("); idx = numeral(1); eat("P", ":")
            props = []
            while True:
                key = eat("KW"); eat("P", "="); val = numeral(1)
                props.append((key, val))
                if peek() == ("P", ","):
                    eat("P", ",")
                    continue
                break
            eat("P", ")")
            d.blocks.append((idx, props))
    if peek()[0] != "EOF":
        raise Reject("syntax", f"trailing input at token {pos}: {peek()}")
    return d


def decode(s, term_of=None, ge=None):
    """The graph a sentence denotes (concrete indices only): (elements in block order,
    bond set of 0-based sorted pairs, {atom: {key: value}}, conditions).  Raises Reject."""
    d = parse(s, term_of, ge)
    n = d.n
    bonds = set()
    for a, b in d.tuples:
        if not isinstance(a, int) or not isinstance(b, int):
            raise Reject("syntax", "symbolic index not supported by decode()")
        if a == b:
            raise Reject("self-loop", f"({a}-{b})")
        if a > n or b > n:
            raise Reject("index", f"({a}-{b}) with {n} atoms")
        bonds.add((min(a, b) - 1, max(a, b) - 1))
    attrs = {}
    for idx, props in d.blocks:
        if not isinstance(idx, int):
            raise Reject("syntax", "symbolic index not supported by decode()")
        for key, val in props:
            slot = attrs.setdefault(idx - 1, {})
            if key in slot:
                raise Reject("duplicate-attribute", f"atom {idx} {key}")
            slot[key] = val
    for idx in attrs:
        if idx >= n:
            raise Reject("index", f"attribute on atom {idx + 1} with {n} atoms")
    return d.elements(), bonds, attrs, d.conds


def layout_problems(s, elements, term_of=None, ge=None):
    """REF-LAYOUT: the canonical-layout rules of property C05, judged on the string
    and the molecule's element multiset.  Returns (list of problems, conditions)."""
    problems = []
    try:
        d = parse(s, term_of, ge)
    except Reject as e:
        return [f"not a sentence of the grammar: {e}"], []
    n = d.n
    written = "".join(sym + (str(c) if c > 1 else "") for sym, c in d.formula)
    if written != hill_formula(elements):
        problems.append(f"sum formula {written!r} is not the Hill formula {hill_formula(elements)!r} of the molecule")
    if n != len(elements):
        problems.append(f"formula has {n} atoms, molecule has {len(elements)}")
    if any(c < 1 for _, c in d.formula):
        problems.append("non-positive count")
    prev = None
    for a, b in d.tuples:
        if not (isinstance(a, int) and isinstance(b, int)):
            problems.append("symbolic bond index"); continue
        if not (1 <= a < b <= n):
            problems.append(f"tuple ({a}-{b}) is not a<b within 1..{n}")
        if prev is not None and not prev < (a, b):
            problems.append(f"tuples not strictly ascending at ({a}-{b})")
        prev = (a, b)
    prev = None
    for idx, props in d.blocks:
        if not isinstance(idx, int):
            problems.append("symbolic attribute index"); continue
        if not 1 <= idx <= n:
            problems.append(f"attribute index {idx} outside 1..{n}")
        if prev is not None and not prev < idx:
            problems.append(f"attribute blocks not in strictly ascending index order at {idx}")
        prev = idx
        keys = [k for k, _ in props]
        if len(set(keys)) != len(keys):
            problems.append(f"attribute set twice on atom {idx}")
    return problems, d.conds

"""Replay one recorded counterexample on the pristine real code, plain values,
no proxies, no shadows:  python -m symx.replay <file>.  Exit 1 iff it reproduces."""
import json
import sys


def main(path):
    from symx.driver import load_body
    from symx.core import run_concrete
    with open(path) as f:
        rec = json.load(f)
    job = {"module": rec["module"], "factory": rec["factory"], "params": _untuple(rec.get("params", {}))}
    body = load_body(job)
    for h in rec.get("history", []):          # history-dependent failure: run the earlier inputs first
        try:
            run_concrete(body, h)
        except BaseException:
            pass
    kind, obs, notes, detail = run_concrete(body, rec["values"])
    failed = [n for n, v, _ in obs if not v]
    print(json.dumps({"kind": kind, "failed": failed, "detail": detail, "notes": notes}, default=str, indent=1)[:4000])
    if kind in ("unsupported", "cut", "assumption"):
        print("NOT-REPRODUCED (harness could not run: %s)" % detail)
        return 0
    if kind == "exception" or failed:
        print(f"REPRODUCED property={rec['property']} obligation={failed[0] if failed else 'unexpected-exception'}")
        return 1
    print("NOT-REPRODUCED")
    return 0


def _untuple(x):
    return x


if __name__ == "__main__":
    sys.exit(main(sys.argv[1]))

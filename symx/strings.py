"""Strings that contain symbolic numbers (DESIGN §3.1).

A SymInt formats as a 3-code-point placeholder  U+E000, U+E100+k, U+E001  and
registers term k with the current path.  The real code concatenates, joins,
slices at fixed columns and splits on blanks as usual.  Here: the segment view,
equality of two segment strings for all values, instantiation by a model, and
the `int` shadow that maps a placeholder back to its term.
"""
from __future__ import annotations

import builtins
import z3

from .core import Ctx, SymInt, SymBool, Unsupported, PH_START, PH_END, PH_BASE

_builtin_int = builtins.int
_builtin_float = builtins.float


def has_ph(s) -> bool:
    return isinstance(s, str) and (PH_START in s or PH_END in s)


def items(s: str, terms=None):
    """Tokenise into ('lit', text) | ('num', int) | ('term', SymInt).
    Digit runs become numbers only when they have no leading zero."""
    if terms is None:
        terms = Ctx.cur.terms
    out = []
    i, n = 0, len(s)
    lit = []

    def flush():
        if lit:
            out.append(("lit", "".join(lit)))
            lit.clear()

    while i < n:
        ch = s[i]
        if ch == PH_START:
            if i + 2 >= n or s[i + 2] != PH_END:
                raise Unsupported("placeholder cut by a slice")
            k = ord(s[i + 1]) - PH_BASE
            if not 0 <= k < len(terms):
                raise Unsupported("unknown placeholder id")
            flush()
            out.append(("term", terms[k]))
            i += 3
        elif ch == PH_END or 0xE100 <= ord(ch) < 0xF000:
            raise Unsupported("placeholder cut by a slice")
        elif ch.isdigit() and ch.isascii():
            j = i
            while j < n and s[j].isdigit() and s[j].isascii():
                j += 1
            run = s[i:j]
            if len(run) > 1 and run[0] == "0":
                lit.append(run)
            else:
                flush()
                out.append(("num", _builtin_int(run)))
            i = j
        else:
            lit.append(ch)
            i += 1
    flush()
    # a term next to a digit literal cannot be compared position-wise
    for a, b in zip(out, out[1:]):
        if a[0] != "lit" and b[0] != "lit":
            raise Unsupported("placeholder adjacent to a digit run")
        if a[0] == "term" and b[0] == "lit" and b[1][0].isdigit():
            raise Unsupported("placeholder adjacent to a digit run")
        if b[0] == "term" and a[0] == "lit" and a[1][-1].isdigit():
            raise Unsupported("placeholder adjacent to a digit run")
    return out


def _nonneg(t: SymInt):
    c = Ctx.cur
    k = t.t.get_id()
    if k not in c.nonneg_cache:
        c.nonneg_cache[k] = (t.t, c.implied(t.t >= 0))
    return c.nonneg_cache[k][1]


def str_eq(a: str, b: str):
    """Condition (no fork) under which the two strings are equal."""
    if not has_ph(a) and not has_ph(b):
        return a == b
    ia, ib = items(a), items(b)
    if len(ia) != len(ib):
        return False
    conds = []
    for x, y in zip(ia, ib):
        if x[0] == "lit" or y[0] == "lit":
            if x != y:
                return False
            continue
        for side in (x, y):
            if side[0] == "term" and not _nonneg(side[1]):
                raise Unsupported("possibly negative term in a compared string")
        tx = x[1].t if x[0] == "term" else z3.IntVal(x[1])
        ty = y[1].t if y[0] == "term" else z3.IntVal(y[1])
        conds.append(tx == ty)
    if not conds:
        return True
    return SymBool(z3.And(conds))


def instantiate(x, model, terms, widths=None):
    """Replace placeholders by their value in `model` (recursively in containers)."""
    if isinstance(x, str):
        if not has_ph(x):
            return x
        out = []
        i = 0
        while i < len(x):
            if x[i] == PH_START and i + 2 < len(x) and x[i + 2] == PH_END:
                k = ord(x[i + 1]) - PH_BASE
                if hasattr(terms[k], "instantiate"):           # a SymStr
                    out.append(terms[k].instantiate(model))
                    i += 3
                    continue
                txt = str(model.eval(terms[k].t, model_completion=True).as_long())
                out.append(txt.rjust(widths[k]) if widths else txt)
                i += 3
            else:
                out.append(x[i])
                i += 1
        return "".join(out)
    if isinstance(x, SymInt):
        return model.eval(x.t, model_completion=True).as_long()
    if hasattr(x, "instantiate") and hasattr(x, "pieces"):
        return x.instantiate(model)
    if isinstance(x, SymBool):
        return z3.is_true(model.eval(x.t, model_completion=True))
    if isinstance(x, (list, tuple)):
        return [instantiate(v, model, terms, widths) for v in x]
    if isinstance(x, dict):
        return {instantiate(k, model, terms, widths): instantiate(v, model, terms, widths) for k, v in x.items()}
    return x


def plain(x):
    """Normalise containers for comparison of notes (tuples -> lists)."""
    if isinstance(x, (list, tuple)):
        return [plain(v) for v in x]
    if isinstance(x, dict):
        return {k: plain(v) for k, v in x.items()}
    return x


# ---------------------------------------------------------------------------
# shadows

def shadow_int(x=0, *a):
    if isinstance(x, SymInt):
        return x
    if isinstance(x, str) and has_ph(x):
        s = x.strip()
        if len(s) == 3 and s[0] == PH_START and s[2] == PH_END:
            k = ord(s[1]) - PH_BASE
            terms = Ctx.cur.terms
            if 0 <= k < len(terms):
                return terms[k]
        raise Unsupported(f"int() of text that mixes a placeholder with other characters")
    return _builtin_int(x, *a)


def shadow_float(x=0.0):
    if isinstance(x, SymInt) or has_ph(x):
        raise Unsupported("float() of symbolic text")
    return _builtin_float(x)


def install_shadows(modules):
    """Give the named tucan modules a module-level `int`/`float` that understands
    placeholders.  Pass-through for ordinary text."""
    for m in modules:
        m.int = shadow_int
        m.float = shadow_float


def remove_shadows(modules):
    for m in modules:
        for n in ("int", "float"):
            if n in m.__dict__:
                del m.__dict__[n]


def term_of_char(ch):
    """The term behind the middle code point of a placeholder (for reference readers)."""
    k = ord(ch) - PH_BASE
    terms = Ctx.cur.terms
    if not 0 <= k < len(terms):
        raise Unsupported("unknown placeholder id")
    return terms[k]


def ge(term, k):
    return term >= k

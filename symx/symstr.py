"""SymStr — a symbolic string for the wrap/splice kernels (DESIGN §3.2 "deepening").

A rope of pieces: ('lit', text) | ('sl', a, b) = characters a..b-1 of ONE base string whose
characters are an uninterpreted function  f : Int -> Int  and whose length is a symbolic
integer N.  Everything is LIA + UF.  The real functions run on it in CPython:

  len(x)           via a module-level `len` shadow (len() itself must return an int)
  x[i:j]           concrete or symbolic bounds; a cut inside a symbolic piece forks on where it falls
  f"...{x}..."     __format__ returns a placeholder; `lift()` turns such text back into a rope
  x + y, startswith, endswith (content-aware through f), ==

On a ConcreteCtx the same harness gets an ordinary str built from the model (N and f)."""
from __future__ import annotations

import builtins
import z3

from .core import Ctx, SymInt, SymBool, Unsupported, PH_START, PH_END, PH_BASE, Infeasible

_builtin_len = builtins.len


class Base:
    """The one symbolic base string of a path."""

    def __init__(self, name, N, f):
        self.name, self.N, self._f = name, N, f
        self._seen = {}

    def f(self, idx):
        """Character code at idx; every character the code under test looks at is printable ASCII
        (the constraint is added when the term is first used: lazy instantiation of the range axiom)."""
        t = self._f(idx)
        k = t.get_id()
        if k not in self._seen:
            self._seen[k] = t
            c = Ctx.cur
            c._flush()
            c.solver.add(t >= 32, t <= 126)
        return t


def fresh_symstr(c, name, max_len, min_len=0):
    """Harness input: a string of symbolic length in [min_len, max_len] with symbolic characters."""
    if not c.symbolic:
        return c.values[name]
    N = z3.Int(name + "#len")
    f = z3.Function(name + "#chr", z3.IntSort(), z3.IntSort())
    c.solver.add(N >= min_len, N <= max_len)
    c.assumptions += [N >= min_len, N <= max_len]
    base = Base(name, N, f)
    c.strvars = getattr(c, "strvars", {})
    c.strvars[name] = base
    return SymStr([("sl", z3.IntVal(0), N)], base)


FILL = "~"     # stands for characters the path condition leaves free (never part of a literal the kernels compare with)


def _chr(v):
    return chr(v) if 32 <= v <= 126 else FILL


def model_string(base, model):
    n = model.eval(base.N, model_completion=True).as_long()
    return "".join(_chr(model.eval(base._f(z3.IntVal(i)), model_completion=True).as_long()) for i in range(n))


class SymStr:
    __slots__ = ("pieces", "base")

    def __init__(self, pieces, base):
        self.base = base
        self.pieces = self._norm(pieces)

    # -- normal form: no empty pieces (provably), adjacent literals merged, adjacent slices merged when contiguous
    def _norm(self, pieces):
        out = []
        for p in pieces:
            if p[0] == "lit":
                if not p[1]:
                    continue
                if out and out[-1][0] == "lit":
                    out[-1] = ("lit", out[-1][1] + p[1])
                else:
                    out.append(p)
            else:
                _, a, b = p
                a, b = z3.simplify(a), z3.simplify(b)
                if a.eq(b):
                    continue
                if out and out[-1][0] == "sl" and z3.simplify(out[-1][2] - a).eq(z3.IntVal(0)):
                    out[-1] = ("sl", out[-1][1], b)
                else:
                    out.append(("sl", a, b))
        return out

    def _len_term(self):
        t = z3.IntVal(0)
        for p in self.pieces:
            t = t + (_builtin_len(p[1]) if p[0] == "lit" else p[2] - p[1])
        return z3.simplify(t)

    def sym_len(self):
        return SymInt(self._len_term(), W=None)

    def __len__(self):
        raise Unsupported("len() of a SymStr through the builtin (shadow `len` in the module under test)")

    def __bool__(self):
        return Ctx.cur.branch(self._len_term() > 0)

    # -- concatenation
    def __add__(self, o):
        if isinstance(o, str):
            o = lift(o, self.base)
        if isinstance(o, SymStr):
            return SymStr(self.pieces + o.pieces, self.base)
        return NotImplemented

    def __radd__(self, o):
        if isinstance(o, str):
            return lift(o, self.base) + self
        return NotImplemented

    # -- slicing
    def _split_at(self, k):
        """(left, right) ropes at offset k (z3 Int term, 0 <= k <= len assumed by the caller's clamp)."""
        c = Ctx.cur
        left, right = [], []
        rest = k
        done = False
        for p in self.pieces:
            if done:
                right.append(p)
                continue
            plen = z3.IntVal(_builtin_len(p[1])) if p[0] == "lit" else p[2] - p[1]
            if c.branch(z3.simplify(rest >= plen)):
                left.append(p)
                rest = z3.simplify(rest - plen)
                continue
            # the cut falls inside this piece
            if p[0] == "lit":
                v = _concrete(c, rest, _builtin_len(p[1]) + 1)
                left.append(("lit", p[1][:v]))
                right.append(("lit", p[1][v:]))
            else:
                left.append(("sl", p[1], p[1] + rest))
                right.append(("sl", p[1] + rest, p[2]))
            done = True
        return SymStr(left, self.base), SymStr(right, self.base)

    def _clamp(self, v, default):
        """Python slice index -> offset term in [0, len]."""
        c = Ctx.cur
        if v is None:
            return default
        L = self._len_term()
        t = v.t if isinstance(v, SymInt) else z3.IntVal(int(v))
        if c.branch(z3.simplify(t < 0)):
            t = t + L
            if c.branch(z3.simplify(t < 0)):
                return z3.IntVal(0)
        if c.branch(z3.simplify(t > L)):
            return L
        return z3.simplify(t)

    def __getitem__(self, key):
        if isinstance(key, (int, SymInt)) and not isinstance(key, bool):
            # a single character: x[i] == x[i:i+1] when i is in range (IndexError otherwise, as for str)
            c = Ctx.cur
            L = self._len_term()
            t = key.t if isinstance(key, SymInt) else z3.IntVal(int(key))
            if c.branch(z3.simplify(t < 0)):
                t = t + L
            if not c.branch(z3.simplify(z3.And(t >= 0, t < L))):
                raise IndexError("string index out of range")
            t = z3.simplify(t)
            return self[SymInt(t):SymInt(t + 1)]
        if not isinstance(key, slice) or key.step not in (None, 1):
            raise Unsupported("SymStr indexing other than a plain slice or an index")
        L = self._len_term()
        lo = self._clamp(key.start, z3.IntVal(0))
        hi = self._clamp(key.stop, L)
        c = Ctx.cur
        if c.branch(z3.simplify(hi <= lo)):
            return SymStr([], self.base)
        head, _ = self._split_at(hi)
        _, mid = head._split_at(lo)
        return mid

    # -- content
    def _char_at_end(self, k):
        """Term of the k-th character from the end (k = 1 is the last); None if the rope is provably shorter."""
        raise NotImplementedError

    def _chars_from(self, forward, count):
        """Conditions describing the first/last `count` characters: list of (term | int) codes, or None if too short."""
        c = Ctx.cur
        if not c.branch(z3.simplify(self._len_term() >= count)):
            return None
        out = []
        pieces = self.pieces if forward else list(reversed(self.pieces))
        need = count
        for p in pieces:
            if need == 0:
                break
            if p[0] == "lit":
                txt = p[1] if forward else p[1][::-1]
                take = min(need, _builtin_len(txt))
                out += [ord(ch) for ch in txt[:take]]
                need -= take
            else:
                a, b = p[1], p[2]
                plen = b - a
                # how many of the needed characters come from this symbolic piece: fork on its length
                k = 0
                while k < need and c.branch(z3.simplify(plen > k)):
                    out.append(self.base.f(a + k) if forward else self.base.f(b - 1 - k))
                    k += 1
                need -= k
        return out if need == 0 else None

    def startswith(self, prefix):
        if not isinstance(prefix, str):
            raise Unsupported("startswith a non-literal")
        codes = self._chars_from(True, _builtin_len(prefix))
        if codes is None:
            return False
        conds = [(x == ord(ch)) for x, ch in zip(codes, prefix)]
        return _decide(conds)

    def endswith(self, suffix):
        if not isinstance(suffix, str):
            raise Unsupported("endswith a non-literal")
        codes = self._chars_from(False, _builtin_len(suffix))
        if codes is None:
            return False
        conds = [(x == ord(ch)) for x, ch in zip(codes, suffix[::-1])]
        return _decide(conds)

    # -- stripping (content-aware, unwound to a small depth; deeper runs are cut)
    STRIP_UNWIND = 4
    _WS = " \t\n\r\x0b\x0c"

    def _edge_in(self, chars, right):
        """Fork: is the rope non-empty with its last (right) / first character in `chars`?"""
        c = Ctx.cur
        if not self.pieces:
            return False
        p = self.pieces[-1] if right else self.pieces[0]
        if p[0] == "lit":
            return (p[1][-1] if right else p[1][0]) in chars
        if not c.branch(z3.simplify(p[2] > p[1])):
            # provably-or-chosen empty piece: look past it
            rest = SymStr(self.pieces[:-1] if right else self.pieces[1:], self.base)
            return rest._edge_in(chars, right)
        ch = self.base.f(p[2] - 1) if right else self.base.f(p[1])
        return c.branch(z3.Or([ch == ord(x) for x in chars]))

    def _strip(self, chars, left, right):
        from .core import Cut
        chars = self._WS if chars is None else chars
        if not isinstance(chars, str):
            raise Unsupported("strip with non-literal characters")
        cur = self
        for side in ((True,) if right else ()) + ((False,) if left else ()):
            n = 0
            while cur._edge_in(chars, side):
                n += 1
                if n > self.STRIP_UNWIND:
                    raise Cut(f"more than {self.STRIP_UNWIND} characters stripped from a symbolic string")
                cur = cur[:-1] if side else cur[1:]
        return cur

    def rstrip(self, chars=None):
        return self._strip(chars, False, True)

    def lstrip(self, chars=None):
        return self._strip(chars, True, False)

    def strip(self, chars=None):
        return self._strip(chars, True, True)

    def removeprefix(self, prefix):
        return self[_builtin_len(prefix):] if self.startswith(prefix) else self

    def removesuffix(self, suffix):
        if suffix and self.endswith(suffix):
            return self[:-_builtin_len(suffix)]
        return self

    def __getattr__(self, name):
        if not name.startswith("_") and hasattr(str, name):
            raise Unsupported(f"str.{name} is not modelled on a SymStr")
        raise AttributeError(name)

    # -- equality: normal forms must coincide piece by piece (bounds provably equal)
    def __eq__(self, o):
        if isinstance(o, str):
            o = lift(o, self.base)
        if not isinstance(o, SymStr):
            return False
        c = Ctx.cur
        if not c.implied(self._len_term() == o._len_term()):
            # lengths can differ: unequal at least for some values; decide by a fork on the lengths
            if not c.branch(z3.simplify(self._len_term() == o._len_term())):
                return False
        a, b = self._resolved(), o._resolved()
        # against a short literal: compare character by character through f
        for x, y in ((a, b), (b, a)):
            if all(pc[0] == "lit" for pc in y) and _builtin_len(y) <= 1 and sum(_builtin_len(pc[1]) for pc in y) <= 16 and any(pc[0] == "sl" for pc in x):
                text = "".join(pc[1] for pc in y)
                who = self if x is a else o
                codes = who._chars_from(True, _builtin_len(text))
                if codes is None:
                    return False
                return _decide([(cd == ord(ch)) for cd, ch in zip(codes, text)])
        if _builtin_len(a) != _builtin_len(b):
            raise Unsupported("SymStr equality between different rope shapes")
        for x, y in zip(a, b):
            if x[0] != y[0]:
                raise Unsupported("SymStr equality between different rope shapes")
            if x[0] == "lit":
                if x[1] != y[1]:
                    return False
            else:
                if not (c.implied(x[1] == y[1]) and c.implied(x[2] == y[2])):
                    raise Unsupported("SymStr equality: slice bounds not provably equal")
        return True

    def __ne__(self, o):
        return not self.__eq__(o)

    def __hash__(self):
        raise Unsupported("hash of a SymStr")

    def _resolved(self):
        """Normal form with provably-empty slices dropped and provably-contiguous slices merged (uses the solver)."""
        c = Ctx.cur
        out = []
        for p in self.pieces:
            if p[0] == "sl":
                if c.implied(p[1] == p[2]):
                    continue
                if out and out[-1][0] == "sl" and c.implied(out[-1][2] == p[1]):
                    out[-1] = ("sl", out[-1][1], p[2])
                    continue
            elif out and out[-1][0] == "lit":
                out[-1] = ("lit", out[-1][1] + p[1])
                continue
            out.append(p)
        return out

    # -- text
    def __format__(self, spec):
        if spec:
            raise Unsupported("format spec on a SymStr")
        c = Ctx.cur
        k = _builtin_len(c.terms)
        c.terms.append(self)
        c.term_width.append(0)
        return PH_START + chr(PH_BASE + k) + PH_END

    __str__ = lambda self: self.__format__("")

    def __repr__(self):
        return "SymStr(" + " + ".join(repr(p[1]) if p[0] == "lit" else f"{self.base.name}[{p[1]}:{p[2]}]" for p in self.pieces) + ")"

    def instantiate(self, model):
        out = []
        for p in self.pieces:
            if p[0] == "lit":
                out.append(p[1])
            else:
                a = model.eval(p[1], model_completion=True).as_long()
                b = model.eval(p[2], model_completion=True).as_long()
                out.append("".join(_chr(model.eval(self.base._f(z3.IntVal(i)), model_completion=True).as_long()) for i in range(a, b)))
        return "".join(out)


def _decide(conds):
    """Fork on a conjunction of character conditions."""
    c = Ctx.cur
    terms = [x for x in conds if not isinstance(x, bool)]
    if any(x is False for x in conds):
        return False
    if not terms:
        return True
    return c.branch(z3.simplify(z3.And(terms)))


def _concrete(c, term, W):
    v = c.concretize(term, W)
    if v is None:
        raise Unsupported("offset inside a literal could not be pinned")
    return v


def lift(x, base=None):
    """Real text with SymStr placeholders -> rope (plain text -> literal rope)."""
    if isinstance(x, SymStr):
        return x
    c = Ctx.cur
    pieces, lit, i = [], [], 0
    found = base
    while i < _builtin_len(x):
        if x[i] == PH_START and i + 2 < _builtin_len(x) and x[i + 2] == PH_END:
            t = c.terms[ord(x[i + 1]) - PH_BASE]
            if not isinstance(t, SymStr):
                raise Unsupported("numeric placeholder inside string kernel text")
            if lit:
                pieces.append(("lit", "".join(lit)))
                lit = []
            pieces += t.pieces
            found = t.base
            i += 3
        else:
            lit.append(x[i])
            i += 1
    if lit:
        pieces.append(("lit", "".join(lit)))
    return SymStr(pieces, found)


def shadow_len(x):
    if isinstance(x, SymStr):
        return x.sym_len()
    return _builtin_len(x)


def last_char_is(x, ch):
    """Condition (no fork): x is non-empty and its last character is ch."""
    if isinstance(x, SymStr):
        if not x.pieces:
            return False
        p = x.pieces[-1]
        if p[0] == "lit":
            return p[1][-1] == ch
        return SymBool(z3.And(p[2] > p[1], x.base.f(p[2] - 1) == ord(ch)))
    return x.endswith(ch)


def length_of(x):
    return x.sym_len() if isinstance(x, SymStr) else _builtin_len(x)

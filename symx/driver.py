"""Job pool, violation confirmation, known-findings filter, evidence writer."""
from __future__ import annotations

import hashlib
import importlib
import json
import multiprocessing as mp
import os
import subprocess
import sys
import time

VERIF = os.path.dirname(os.path.dirname(os.path.abspath(__file__)))
REPO = os.environ.get("VERIF_REPO", "/repo")


def _setup_path():
    for p in (VERIF, REPO):
        if p in sys.path:
            sys.path.remove(p)
    sys.path.insert(0, VERIF)
    sys.path.insert(0, REPO)


def load_body(job):
    _setup_path()
    mod = importlib.import_module(job["module"])
    if hasattr(mod, "warmup"):
        mod.warmup()
    params = dict(job.get("params", {}))
    pins = params.pop("_pins", None)
    body = getattr(mod, job["factory"])(**params)
    if pins:
        def pinned(c, body=body, pins=pins):
            c.pins = pins
            return body(c)
        return pinned
    return body


def _twin(body):
    def twin(c):
        body(c)
        c.oblige("__twin__", False, None)
    return twin


def _run_job(job):
    from .explore import explore
    try:
        body = load_body(job)
        if job.get("twin"):
            body = _twin(body)
        jr = explore(job["name"], body,
                     max_paths=job.get("max_paths", 10 ** 9),
                     max_seconds=job.get("max_seconds", 600.0),
                     repo_root=REPO,
                     sample_keys=job.get("sample_keys"),
                     counters=job.get("counters"),
                     stop_after_violations=1 if job.get("twin") else job.get("stop_after", 5))
        d = jr.as_dict()
        d["job"] = {k: v for k, v in job.items() if k not in ("max_paths", "max_seconds")}
        return d
    except BaseException as e:     # machinery failure
        import traceback
        return {"name": job["name"], "machinery_error": traceback.format_exc(), "job": job}


def run_jobs(jobs, nproc=None):
    nproc = nproc or int(os.environ.get("VERIF_JOBS", "16"))
    if nproc <= 1 or len(jobs) <= 1:
        _setup_path()
        return [_run_job(j) for j in jobs]
    ctx = mp.get_context("spawn")
    with ctx.Pool(min(nproc, len(jobs)), maxtasksperchild=50) as pool:
        return list(pool.imap_unordered(_run_job, jobs, chunksize=1))


# ---------------------------------------------------------------------------
# known findings

def load_known(pid):
    p = os.path.join(VERIF, "known_findings.json")
    if not os.path.exists(p):
        return []
    with open(p) as f:
        data = json.load(f)
    return [k for k in data.get("findings", []) if k.get("property") == pid]


def match_known(viol, known):
    """A finding entry matches when every key of its `match` object matches:
    job_prefix, obligation, values (subset of the replay vector), notes_contains
    (substring of the repr of the concrete notes)."""
    for k in known:
        m = k.get("match", {})
        if "job_prefix" in m and not viol["job"].startswith(m["job_prefix"]):
            continue
        if "obligation" in m and viol["obligation"] != m["obligation"]:
            continue
        if "obligation_prefix" in m and not viol["obligation"].startswith(m["obligation_prefix"]):
            continue
        if "values" in m and any(viol["values"].get(a) != b for a, b in m["values"].items()):
            continue
        if "notes_contains" in m and not all(s in json.dumps(viol.get("notes"), default=str) for s in m["notes_contains"]):
            continue
        return k
    return None


# ---------------------------------------------------------------------------
# replay in a fresh interpreter

def write_replay(pid, job, viol):
    payload = {"property": pid, "module": job["module"], "factory": job["factory"],
               "params": job.get("params", {}), "values": viol["values"],
               "obligation": viol["obligation"], "info": viol.get("info"), "notes": viol.get("notes")}
    if viol.get("use_history"):
        payload["history"] = viol.get("history", [])
        payload["note"] = "history-dependent: the listed inputs are run first, in order, in the same fresh interpreter"
    blob = json.dumps(payload, sort_keys=True, default=str)
    sha = hashlib.sha1(blob.encode()).hexdigest()[:12]
    d = os.path.join(VERIF, "evidence", "replays")
    os.makedirs(d, exist_ok=True)
    path = os.path.join(d, f"{pid}-{sha}.json")
    with open(path, "w") as f:
        f.write(json.dumps(payload, indent=1, default=str))
    return path


def confirm_fresh(path):
    """Run the replay in a fresh interpreter.  True iff the violation reproduces."""
    env = dict(os.environ)
    env["PYTHONPATH"] = VERIF
    r = subprocess.run([sys.executable, "-m", "symx.replay", path], cwd=VERIF, env=env,
                       capture_output=True, text=True, timeout=600)
    return r.returncode == 1, (r.stdout + r.stderr)[-2000:]


# ---------------------------------------------------------------------------
# the check driver

def run_check(pid, tier, jobs, *, bounds, assumptions, stubs=(), outside=(), explanation="",
              extra_obligations=None, extra_coverage=None, t0=None, twins=True):
    """Run symbolic jobs, settle violations, write evidence, return exit code.

    extra_obligations: list of dicts {name, ok(bool|None), detail, inconclusive(bool)} from
    non-symx engines (E2/E3) or scaled replays, merged into the evidence."""
    t0 = t0 or time.time()
    seed = int(os.environ.get("VERIF_SEED", "0") or 0)
    twin_jobs = []
    if twins and jobs:
        seen = set()
        for j in jobs:
            key = (j["module"], j["factory"])
            if key not in seen:
                seen.add(key)
                tj = dict(j)
                tj.update(name="twin:" + j["name"], twin=True, max_paths=400, max_seconds=60)
                twin_jobs.append(tj)
    results = run_jobs(jobs + twin_jobs)
    main = [r for r in results if not r.get("job", {}).get("twin")]
    twin_res = [r for r in results if r.get("job", {}).get("twin")]

    machinery = [r for r in results if "machinery_error" in r]
    agg = {k: 0 for k in ("paths", "ok", "infeasible", "cut", "unsupported", "crosschecked", "obligations",
                          "discharged", "decisions", "forks", "queries", "nonreproducing", "unknown", "reached")}
    solver_s = 0.0
    functions, samples, divergences, violations = set(), [], [], []
    unsupported_reasons, extra = {}, {}
    not_exhausted = []
    strata = {}
    cvc5 = {"sampled": 0, "agree": 0, "disagree": 0, "no_answer": 0}
    for r in main:
        if "machinery_error" in r:
            continue
        for k in cvc5:
            cvc5[k] += r.get("cvc5", {}).get(k, 0)
        st = strata.setdefault(r["name"].split("/pin")[0], {"jobs": 0, "paths": 0, "cpu_s": 0.0, "max_job_s": 0.0, "exhausted": True})
        st["jobs"] += 1
        st["paths"] += r["paths"]
        st["cpu_s"] = round(st["cpu_s"] + r["wall_s"], 1)
        st["max_job_s"] = max(st["max_job_s"], r["wall_s"])
        st["exhausted"] = st["exhausted"] and r["exhausted"]
        for k in agg:
            agg[k] += r[k]
        solver_s += r["solver_s"]
        functions.update(r["functions"])
        if len(samples) < 4 and r["samples"]:
            samples.append({"job": r["name"], **r["samples"][0]})
        divergences += [dict(d, job=r["name"]) for d in r["divergences"]]
        for v in r["violations"]:
            v["_job"] = r["job"]
            violations.append(v)
        # try violations of different jobs first when confirming

        for k, n in r["unsupported_reasons"].items():
            unsupported_reasons[k] = unsupported_reasons.get(k, 0) + n
        for k, n in r["extra"].items():
            extra[k] = max(extra.get(k, 0), n) if k.startswith("max_") else extra.get(k, 0) + n
        if not r["exhausted"] and not r["violations"]:
            not_exhausted.append(r["name"])
    vacuous = [r["name"] for r in twin_res if "machinery_error" not in r and not r["violations"]]

    # settle violations: known findings, fresh-interpreter confirmation
    known = load_known(pid)
    known_hits, reported, unconfirmed = {}, [], 0
    for v in violations:
        k = match_known(v, known)
        if k is not None:
            known_hits.setdefault(k["id"], [k, 0])[1] += 1
            continue
        if len(reported) >= 3 or unconfirmed >= 12:
            continue
        path = write_replay(pid, v["_job"], v)
        ok, out = confirm_fresh(path)
        if not ok and v.get("history"):
            # a result that depends on what the process did before: replay the job's earlier inputs too
            v["use_history"] = True
            path = write_replay(pid, v["_job"], v)
            ok, out = confirm_fresh(path)
            if ok:
                v["obligation"] += " [history-dependent: needs the earlier calls of the replay file]"
        if ok:
            reported.append((path, v))
        else:
            unconfirmed += 1
            divergences.append({"kind": "fresh-interpreter-replay-did-not-reproduce", "replay": path, "out": out[-300:]})
    n_unlisted = sum(1 for v in violations if match_known(v, known) is None)

    if hasattr(extra_obligations, "result"):
        extra_obligations = extra_obligations.result()
    extra_obligations = extra_obligations or []
    eo_fail = [o for o in extra_obligations if o.get("ok") is False]
    eo_inc = [o for o in extra_obligations if o.get("ok") is None]
    for o in eo_fail:
        v = {"job": o["name"], "obligation": o["name"], "values": o.get("values", {}), "notes": o.get("detail")}
        k = match_known(v, known)
        if k is not None:
            known_hits.setdefault(k["id"], [k, 0])[1] += 1
        else:
            reported.append((o.get("replay", "-"), v))
            n_unlisted += 1

    inconclusive = []
    if not_exhausted:
        inconclusive.append(f"{len(not_exhausted)} job(s) hit a budget before their decision tree was exhausted: {not_exhausted[:5]}")
    if agg["unsupported"]:
        inconclusive.append(f"{agg['unsupported']} path(s) met an unmodelled operation and were decided by their concrete replay only: {unsupported_reasons}")
    if divergences:
        inconclusive.append(f"{len(divergences)} engine divergence(s)/non-reproducing counterexample(s); first: {json.dumps(divergences[0], default=str)[:400]}")
    for o in eo_inc:
        inconclusive.append(f"obligation {o['name']} inconclusive: {str(o.get('detail'))[:200]}")

    exhaustive = not inconclusive and not reported and not machinery and not vacuous
    n_ob = agg["obligations"] + len(extra_obligations)
    n_dis = agg["discharged"] + sum(1 for o in extra_obligations if o.get("ok") is True)
    coverage = {
        "states": max(agg["paths"], 1) if jobs else max(len(extra_obligations), 1),
        "transitions": max(agg["decisions"], 1) if jobs else max(len(extra_obligations), 1),
        "traces_validated_against_impl": agg["crosschecked"],
        "samples": samples or [{"obligation": o["name"], "detail": o.get("detail")} for o in extra_obligations[:4]] or ["none"],
        "obligations": n_ob,
        "discharged": n_dis,
        "exhaustive": exhaustive,
        "explanation": explanation,
        "paths": {k: agg[k] for k in ("paths", "ok", "infeasible", "cut", "unsupported", "reached")},
        "solver": {"engine": "z3 " + _z3_version(), "queries": agg["queries"], "solver_s": round(solver_s, 2),
                   "forks": agg["forks"], "unknown": agg["unknown"]},
        "second_solver": dict(cvc5, note="every 100th end-of-path validity query (<= 12 per job) re-decided by the cvc5 1.0.3 binary on the SMT-LIB2 dump"),
        "functions_encoded": sorted(functions),
        "bounds": bounds,
        "outside_the_bound": list(outside),
        "stubs": list(stubs),
        "jobs": len(jobs),
        "strata": strata,
        "vacuity_twins": {"run": len(twin_res), "fired": len(twin_res) - len(vacuous)},
        "engine_divergences": divergences[:10],
        "n_engine_divergences": len(divergences),
        "unsupported_reasons": unsupported_reasons,
        "inconclusive": inconclusive,
        "known_findings_hit": {k: n for k, (_, n) in known_hits.items()},
        "extra_obligations": [{k: (v if k != "detail" else _clip(v)) for k, v in o.items()} for o in extra_obligations],
        "counters": extra,
        "verdict": "VIOLATION" if reported else ("INCONCLUSIVE" if inconclusive or machinery or vacuous else "HOLDS-WITHIN-BOUND"),
    }
    if extra_coverage:
        coverage.update(extra_coverage)
    ev = {"property_id": pid, "tier": tier, "seed": seed, "level": "model_checking",
          "coverage": coverage, "assumptions": list(assumptions) + [f"stub: {s}" for s in stubs],
          "wall_s": round(time.time() - t0, 2), "violations": n_unlisted}
    os.makedirs(os.path.join(VERIF, "evidence"), exist_ok=True)
    with open(os.path.join(VERIF, "evidence", f"{pid}.json"), "w") as f:
        json.dump(ev, f, indent=1, default=str)

    for kid, (k, n) in known_hits.items():
        print(f"KNOWN-FINDING: property={pid} {k['what']} [{kid}; {n} path(s)]")
    for m in machinery:
        print(f"MACHINERY-ERROR job={m['name']}\n{m['machinery_error']}", file=sys.stderr)
    for line in inconclusive:
        print(f"INCONCLUSIVE: property={pid} {line}")
    if vacuous:
        print(f"MACHINERY-ERROR: vacuity twin did not fire for {vacuous}", file=sys.stderr)
    print(f"{pid} [{tier}] paths={agg['paths']} ok={agg['ok']} obligations={n_ob} discharged={n_dis} "
          f"queries={agg['queries']} solver_s={solver_s:.1f} crosschecked={agg['crosschecked']} "
          f"violations={n_unlisted} wall={time.time() - t0:.1f}s verdict={coverage['verdict']}")
    if reported:
        for path, v in reported:
            print(f"  failing obligation {v['obligation']} in {v['job']}: {json.dumps(v.get('notes'), default=str)[:500]}")
            print(f"VIOLATION property={pid} replay={path}")
        return 1
    if machinery or vacuous:
        return 2
    return 0


def _clip(x, n=400):
    s = x if isinstance(x, str) else json.dumps(x, default=str)
    return s if len(s) <= n else s[:n] + "…"


def _z3_version():
    try:
        import z3
        return z3.get_version_string()
    except Exception:
        return "?"

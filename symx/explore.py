"""Path exploration with per-path concrete cross-check (DESIGN §1, §3.1, §7)."""
from __future__ import annotations

import sys
import time
import z3

from .core import (Ctx, Stats, SolverUnknown, run_path, next_prefix, run_concrete)
from .strings import instantiate, plain


class JobResult:
    def __init__(self, name):
        self.name = name
        self.paths = 0
        self.ok = 0
        self.infeasible = 0
        self.cut = 0
        self.unsupported = 0           # decided by concrete replay only
        self.unsupported_reasons = {}
        self.divergences = []          # engine artefacts (inconclusive), never alarms
        self.violations = []           # confirmed in-process on plain values
        self.nonreproducing = 0
        self.crosschecked = 0
        self.obligations = 0           # obligations posed (sum over paths)
        self.discharged = 0
        self.decisions = 0
        self.forks = 0
        self.queries = 0
        self.solver_s = 0.0
        self.exhausted = False
        self.unknown = 0
        self.samples = []
        self.functions = []
        self.wall_s = 0.0
        self.extra = {}                # harness-specific counters (summed by the driver)
        self.reached = 0               # paths that reached at least one obligation (vacuity guard)
        self.cvc5 = {}

    def as_dict(self):
        return {k: v for k, v in self.__dict__.items() if not k.startswith("_")}


def _profile_functions(body, repo_root):
    """Names of /repo functions entered by one concrete-free symbolic run."""
    seen = set()

    def prof(frame, event, arg):
        if event == "call":
            co = frame.f_code
            fn = co.co_filename
            if fn.startswith(repo_root) and "/tucan/" in fn:
                mod = fn[len(repo_root):].lstrip("/").removesuffix(".py").replace("/", ".")
                if "tucanParser" in mod or "tucanLexer" in mod:
                    seen.add(mod + ".*")
                else:
                    seen.add(f"{mod}.{co.co_qualname}")
    return seen, prof


def explore(name, body, max_paths=200000, max_seconds=600.0, repo_root="/repo",
            n_samples=3, sample_keys=None, counters=None, stop_after_violations=5):
    """Explore every feasible path of `body`.

    body(ctx) builds inputs from ctx, runs the real code, poses obligations
    (ctx.oblige) and leaves notes (ctx.note).  The same body is run on a
    ConcreteCtx with each path's model: the concrete outcome must agree with the
    symbolic one instantiated by the model."""
    t0 = time.time()
    stats = Stats()
    jr = JobResult(name)
    jr._history = []            # concrete replay vectors of all earlier paths of this job (for history-dependent failures)
    prefix = []
    first = True
    while True:
        if first:
            seen, prof = _profile_functions(body, repo_root)
            sys.setprofile(prof)
        try:
            try:
                res, trace, obs, c = run_path(body, prefix, stats)
            finally:
                if first:
                    sys.setprofile(None)
                    jr.functions = sorted(seen)
                    first = False
        except SolverUnknown as e:
            jr.unknown += 1
            jr.exhausted = False
            jr.divergences.append({"kind": "solver-unknown", "detail": str(e)[:200]})
            break
        jr.paths += 1
        jr.decisions += len(trace)
        if res.kind == "infeasible":
            jr.infeasible += 1
        elif res.kind == "cut":
            jr.cut += 1
        else:
            _settle(jr, body, res, obs, c, n_samples, sample_keys, counters)
            if res.values is not None:
                jr._history.append(res.values)
        prefix = next_prefix(trace)
        if prefix is None:
            jr.exhausted = True
            break
        if jr.paths >= max_paths or time.time() - t0 > max_seconds:
            break
        if len(jr.violations) >= stop_after_violations:
            break
    jr.cvc5 = _second_opinion(getattr(stats, "smt_samples", []), jr)
    jr.queries, jr.solver_s, jr.forks = stats.queries, round(stats.solver_s, 3), stats.forks
    jr.wall_s = round(time.time() - t0, 3)
    return jr


def _settle(jr, body, res, obs, c, n_samples, sample_keys, counters):
    model = True if c.inst_notes is not None else None
    ckind, cobs, cnotes, cdetail = run_concrete(body, res.values)
    jr.crosschecked += 1
    cfailed = [(n, i) for n, v, i in cobs if not v]

    if counters:
        for k in counters:
            if k in cnotes and isinstance(cnotes[k], (int, float)):
                jr.extra[k] = max(jr.extra.get(k, 0), cnotes[k]) if k.startswith("max_") else jr.extra.get(k, 0) + cnotes[k]

    if ckind in ("unsupported", "cut"):
        jr.unsupported += 1
        key = "concrete replay: " + (cdetail or "")[:70]
        jr.unsupported_reasons[key] = jr.unsupported_reasons.get(key, 0) + 1
        return
    if ckind == "assumption":
        jr.divergences.append({"kind": "model-outside-assumptions", "values": res.values, "detail": cdetail})
        return

    if res.kind == "unsupported":
        jr.unsupported += 1
        key = (res.detail or "")[:80]
        jr.unsupported_reasons[key] = jr.unsupported_reasons.get(key, 0) + 1
        # decided by the concrete replay only
        if ckind == "exception":
            jr.violations.append(_viol(jr, "unexpected-exception", res.values, cdetail, cnotes))
        elif cfailed:
            jr.violations.append(_viol(jr, cfailed[0][0], res.values, cfailed[0][1], cnotes))
        return

    if res.kind == "exception":
        if ckind == "exception":
            jr.violations.append(_viol(jr, "unexpected-exception", res.values, cdetail, cnotes))
        else:
            jr.divergences.append({"kind": "symbolic-only-exception", "values": res.values, "detail": res.detail})
        return

    # ok or violated: symbolic and concrete outcome must agree on the path model
    jr.reached += 1 if obs else 0
    jr.obligations += len(obs)
    if ckind == "exception":
        jr.violations.append(_viol(jr, "unexpected-exception", res.values, cdetail, cnotes))
        jr.divergences.append({"kind": "concrete-only-exception", "values": res.values, "detail": cdetail})
        return
    sym_notes = c.inst_notes
    con_notes = plain(cnotes)
    if sym_notes is not None and sym_notes != con_notes:
        diff = [k for k in set(sym_notes) | set(con_notes) if sym_notes.get(k) != con_notes.get(k)]
        jr.divergences.append({"kind": "notes-differ", "values": res.values, "keys": diff[:5],
                               "symbolic": {k: sym_notes.get(k) for k in diff[:3]},
                               "concrete": {k: con_notes.get(k) for k in diff[:3]}})
    if res.kind == "ok" and [n for n, _ in obs] != [n for n, _, _ in cobs]:
        jr.divergences.append({"kind": "obligation-lists-differ", "values": res.values,
                               "symbolic": [n for n, _ in obs][:10], "concrete": [n for n, _, _ in cobs][:10]})

    if res.kind == "ok":
        jr.discharged += len(obs)
        if cfailed:
            # the plain run of the real code fails an obligation the symbolic run proved:
            # a real counterexample (and an engine divergence worth knowing about)
            jr.violations.append(_viol(jr, cfailed[0][0], res.values, cfailed[0][1], cnotes))
            jr.divergences.append({"kind": "concrete-fails-proved-obligation", "values": res.values})
        else:
            jr.ok += 1
            if len(jr.samples) < n_samples and model is not None:
                jr.samples.append(_sample(res, c, sym_notes, sample_keys))
        return

    # violated: confirm every failed obligation on plain values
    failed_names = {n for n, _, _ in res.failed}
    jr.discharged += len(obs) - len(failed_names)
    confirmed = False
    for oname, cm_values, info in res.failed:
        k2, cobs2, cnotes2, cdetail2 = run_concrete(body, cm_values)
        if k2 == "exception":
            jr.violations.append(_viol(jr, "unexpected-exception", cm_values, cdetail2, cnotes2))
            confirmed = True
            break
        hit = [(n, i) for n, v, i in cobs2 if not v]
        if hit:
            names = [n for n, _ in hit]
            pick = oname if oname in names else names[0]
            info2 = dict(hit)[pick]
            jr.violations.append(_viol(jr, pick, cm_values, info2 if info2 is not None else info, cnotes2))
            confirmed = True
            break
    if not confirmed:
        jr.nonreproducing += 1
        jr.divergences.append({"kind": "counterexample-does-not-reproduce", "values": res.failed[0][1],
                               "obligation": res.failed[0][0]})


def _viol(jr, obligation, values, info, notes):
    v = {"job": jr.name, "obligation": obligation, "values": values,
         "info": _short(info), "notes": _short(plain(notes))}
    if not jr.violations:        # the first violation of a job carries the job's call history so far
        v["history"] = list(jr._history[-20000:])
    return v


def _short(x, limit=600):
    s = repr(x)
    return x if len(s) <= limit else s[:limit] + "…"


def _sample(res, c, sym_notes, sample_keys):
    keys = sample_keys or list(sym_notes)[:4]
    pc = [str(z3.simplify(a)) for a in c.solver.assertions()][:12]
    return {"path_condition": pc, "model": res.values,
            "notes": {k: sym_notes.get(k) for k in keys if k in sym_notes},
            "symbolic_notes": {k: _show(c.notes.get(k), c) for k in keys if k in c.notes}}


def _show(x, c):
    """Readable rendering of a note with placeholders: <term>."""
    from .core import PH_START, PH_END, PH_BASE
    if isinstance(x, str):
        out, i = [], 0
        while i < len(x):
            if x[i] == PH_START and i + 2 < len(x) and x[i + 2] == PH_END:
                k = ord(x[i + 1]) - PH_BASE
                out.append("<" + (str(c.terms[k].t) if hasattr(c.terms[k], "t") else repr(c.terms[k])) + ">")
                i += 3
            else:
                out.append(x[i])
                i += 1
        return "".join(out)
    if isinstance(x, (list, tuple)):
        return [_show(v, c) for v in x]
    if isinstance(x, dict):
        return {str(_show(k, c)): _show(v, c) for k, v in x.items()}
    if hasattr(x, "t"):
        return "<" + str(x.t) + ">"
    if hasattr(x, "pieces"):
        return repr(x)
    return x


def _second_opinion(samples, jr):
    """Re-decide a sample of end-of-path queries with the cvc5 binary.  A disagreement is an engine divergence."""
    import os
    import subprocess
    import tempfile
    out = {"sampled": len(samples), "agree": 0, "disagree": 0, "no_answer": 0}
    exe = "/usr/bin/cvc5"
    if not samples or not os.path.exists(exe):
        return out
    for expect, smt2 in samples:
        with tempfile.NamedTemporaryFile("w", suffix=".smt2", delete=False, dir="/tmp") as f:
            f.write("(set-logic ALL)\n" + smt2)
            path = f.name
        try:
            r = subprocess.run([exe, "--tlimit=20000", path], capture_output=True, text=True, timeout=30)
            ans = (r.stdout.strip().splitlines() or ["?"])[0]
        except Exception:
            ans = "?"
        finally:
            os.unlink(path)
        if ans in ("sat", "unsat"):
            if ans == expect:
                out["agree"] += 1
            else:
                out["disagree"] += 1
                jr.divergences.append({"kind": "cvc5-disagrees-with-z3", "z3": expect, "cvc5": ans})
        else:
            out["no_answer"] += 1
    return out

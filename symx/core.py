"""symx — dynamic symbolic execution of the real TUCAN code on z3-backed proxies.

The real, unmodified functions of /repo run in CPython on `SymInt`/`SymBool`
values that carry z3 terms.  Every branch on a symbolic condition is decided
by z3; all feasible paths are enumerated by re-execution (DFS over decision
prefixes).  At the end of each path the harness' obligations are validity
queries under the path condition.  See DESIGN.md §3.1.

The same harness body also runs on a `ConcreteCtx` (plain ints and bools taken
from a solver model) — that is the per-path cross-check and the replay.
"""
from __future__ import annotations

import time
import z3

PH_START = "\ue000"
PH_END = "\ue001"
PH_BASE = 0xE100          # one private-use code point per registered term
OUT_OF_RANGE_HASH = 0x5EED5EED


class Unsupported(BaseException):
    """The engine met an operation it does not model: the path is then decided
    by its concrete replay only (never a false alarm)."""


class AssumptionFailed(Exception):
    """A concrete replay was started with values outside the harness' assumptions."""


class Infeasible(BaseException):
    """An `assume` made the path condition unsatisfiable: the path is dropped."""


class SolverUnknown(BaseException):
    """z3 answered `unknown` at a branch: the job is inconclusive."""


class Cut(BaseException):
    """An unwinding bound was hit; the path is counted as cut."""


SAMPLE_EVERY = 100
SAMPLE_MAX = 12


class Stats:
    def __init__(self):
        self.queries = 0
        self.solver_s = 0.0
        self.forks = 0


class Ctx:
    """One symbolic path."""

    cur: "Ctx | None" = None
    symbolic = True

    def __init__(self, prefix, stats: Stats, qtimeout_ms=10000):
        self.solver = z3.Solver()
        self.solver.set("timeout", qtimeout_ms)
        self.qtimeout_ms = qtimeout_ms
        self.prefix = prefix
        self.trace = []            # [(decision, alternative_open)]
        self.known = {}            # ast id -> decision   (ASTs kept alive in self.keep)
        self.keep = []
        self.vars = {}             # name -> z3 const (harness inputs; the replay vector)
        self.terms = []            # placeholder id -> SymInt
        self.obligations = []      # (name, z3 formula, info)
        self.notes = {}
        self.stats = stats
        self.assumptions = []
        self.nonneg_cache = {}
        self.term_width = []
        self.pending = []
        self.inst_notes = None

    # ---- solver plumbing -------------------------------------------------
    def _check(self, *extra):
        self._flush()
        t0 = time.perf_counter()
        r = self.solver.check(*extra)
        if r == z3.unknown:
            # most likely the per-query time limit under machine load: one retry with a generous limit
            self.solver.set("timeout", 120000)
            r = self.solver.check(*extra)
            self.solver.set("timeout", self.qtimeout_ms)
        self.stats.solver_s += time.perf_counter() - t0
        self.stats.queries += 1
        return r

    def assume(self, cond):
        cond = _as_term(cond)
        if isinstance(cond, bool):
            if not cond:
                raise Infeasible()
            return
        self.solver.add(cond)
        self.assumptions.append(cond)

    def branch(self, cond) -> bool:
        """Decide a symbolic condition.  Conditions are cached by AST id (the ASTs
        are kept alive: ids are recycled after GC) in positive form."""
        neg = False
        while z3.is_not(cond):
            cond = cond.arg(0)
            neg = not neg
        k = cond.get_id()
        d = self.known.get(k)
        if d is None:
            d = self._decide(cond, k)
        return d != neg

    def _decide(self, cond, k):
        if z3.is_true(cond):
            return True
        if z3.is_false(cond):
            return False
        i = len(self.trace)
        if i < len(self.prefix):
            d, alt = self.prefix[i]
            if alt is not False:          # a real decision (taken or flipped); implied ones need no assertion
                self.pending.append(cond if d else z3.Not(cond))
        else:
            self._flush()
            r = self._check(cond)
            if r == z3.unknown:
                raise SolverUnknown(str(cond))
            if r == z3.unsat:
                d, alt = False, False
            else:
                r2 = self._check(z3.Not(cond))
                if r2 == z3.unknown:
                    raise SolverUnknown(str(cond))
                d, alt = True, r2 == z3.sat
            if alt:
                self.stats.forks += 1
                self.solver.add(cond if d else z3.Not(cond))
        self.trace.append((d, alt))
        self.keep.append(cond)
        self.known[k] = d
        return d

    def _flush(self):
        if self.pending:
            self.solver.add(*self.pending)
            self.pending = []

    def concretize(self, t, W):
        for v in range(W):
            if self.branch(t == v):
                return v
        return None

    def eval_now(self, term):
        """A value of `term` in some model of the current path condition (does not constrain the path)."""
        r = self._check()
        if r != z3.sat:
            raise SolverUnknown("eval_now") if r == z3.unknown else Infeasible()
        return self.solver.model().eval(term, model_completion=True).as_long()

    def implied(self, cond) -> bool:
        """pc |= cond ?  (no fork)"""
        cond = z3.simplify(cond)
        if z3.is_true(cond):
            return True
        r = self._check(z3.Not(cond))
        if r == z3.unknown:
            raise SolverUnknown(str(cond))
        return r == z3.unsat

    # ---- harness inputs --------------------------------------------------
    def int(self, name, lo=None, hi=None, W=None):
        v = z3.Int(name)
        assert name not in self.vars, name
        self.vars[name] = v
        if lo is not None:
            self.solver.add(v >= lo)
            self.assumptions.append(v >= lo)
        if hi is not None:
            self.solver.add(v <= hi)
            self.assumptions.append(v <= hi)
        return SymInt(v, W)

    def bool(self, name):
        v = z3.Bool(name)
        assert name not in self.vars, name
        self.vars[name] = v
        return SymBool(v)

    pins = {}

    def flag(self, name) -> bool:
        """A solver-forked boolean structural choice."""
        if name in self.pins:
            return bool(self.pins[name])
        return bool(self.bool(name))

    def choice(self, name, n) -> int:
        """A solver-forked structural choice in range(n) (or pinned by the job)."""
        if name in self.pins:
            if not 0 <= self.pins[name] < n:
                raise Infeasible()
            return self.pins[name]
        x = self.int(name, 0, n - 1)
        v = self.concretize(x.t, n)
        assert v is not None
        return v

    def const(self, v):
        """A concrete number that must live among symbolic ones (hash 0)."""
        return SymInt(z3.IntVal(v))

    # ---- obligations -----------------------------------------------------
    def oblige(self, name, cond, info=None):
        cond = _as_term(cond)
        if isinstance(cond, bool):
            cond = z3.BoolVal(cond)
        self.obligations.append((name, cond, info))

    def note(self, key, value):
        self.notes[key] = value

    def model_values(self, model):
        out = {}
        for name, v in self.vars.items():
            mv = model.eval(v, model_completion=True)
            out[name] = z3.is_true(mv) if z3.is_bool(v) else mv.as_long()
        for name, base in getattr(self, "strvars", {}).items():
            from .symstr import model_string
            out[name] = model_string(base, model)
        return out


class ConcreteCtx:
    """The same harness API on plain Python values (cross-check and replay)."""

    symbolic = False

    def __init__(self, values):
        self.values = values
        self.obligations = []
        self.notes = {}

    def assume(self, cond):
        if not cond:
            raise AssumptionFailed()

    def int(self, name, lo=None, hi=None, W=None):
        v = self.values[name]
        if (lo is not None and v < lo) or (hi is not None and v > hi):
            raise AssumptionFailed(name)
        return v

    def bool(self, name):
        return bool(self.values[name])

    pins = {}

    def flag(self, name):
        if name in self.pins:
            return bool(self.pins[name])
        return bool(self.values[name])

    def choice(self, name, n):
        if name in self.pins:
            if not 0 <= self.pins[name] < n:
                raise AssumptionFailed(name)
            return self.pins[name]
        v = self.values[name]
        if not 0 <= v < n:
            raise AssumptionFailed(name)
        return v

    def const(self, v):
        return v

    def oblige(self, name, cond, info=None):
        self.obligations.append((name, bool(cond), info))

    def note(self, key, value):
        self.notes[key] = value

    def implied(self, cond):
        return bool(cond)


def _as_term(x):
    if isinstance(x, SymBool):
        return x.t
    if isinstance(x, SymInt):
        return x.t
    return x


def _int_term(o):
    if isinstance(o, SymInt):
        return o.t
    if isinstance(o, bool):
        return z3.IntVal(int(o))
    if isinstance(o, int):
        return z3.IntVal(o)
    return None


class SymBool:
    __slots__ = ("t",)

    def __init__(self, t):
        self.t = t

    def __bool__(self):
        return Ctx.cur.branch(self.t)

    def __and__(self, o):
        return SymBool(z3.And(self.t, _bool_term(o)))

    __rand__ = __and__

    def __or__(self, o):
        return SymBool(z3.Or(self.t, _bool_term(o)))

    __ror__ = __or__

    def __invert__(self):
        return SymBool(z3.Not(self.t))

    def __eq__(self, o):
        if isinstance(o, (SymBool, bool)):
            return SymBool(self.t == _bool_term(o))
        return NotImplemented

    def __hash__(self):
        return hash(bool(self))

    def __repr__(self):
        return f"SymBool({self.t})"


def _bool_term(o):
    if isinstance(o, SymBool):
        return o.t
    if isinstance(o, bool):
        return z3.BoolVal(o)
    if z3.is_expr(o):
        return o
    raise Unsupported(f"bool term from {type(o)}")


class SymInt:
    """Symbolic integer.  W is None: value mode (hash 0, separated by the
    solver via __eq__).  W = k: index mode (hash/index concretise by forking
    over range(k))."""

    __slots__ = ("t", "W")

    def __init__(self, t, W=None):
        self.t = t
        self.W = W

    # -- hashing / indexing
    def __hash__(self):
        if self.W is None:
            return 0
        v = Ctx.cur.concretize(self.t, self.W)
        return OUT_OF_RANGE_HASH if v is None else hash(v)

    def __index__(self):
        if z3.is_int_value(self.t):
            return self.t.as_long()
        if self.W is None:
            raise Unsupported("__index__ on a value-mode SymInt")
        v = Ctx.cur.concretize(self.t, self.W)
        if v is None:
            raise Unsupported("__index__ outside the watch range")
        return v

    def __bool__(self):
        return Ctx.cur.branch(self.t != 0)

    # -- comparisons
    def __eq__(self, o):
        x = _int_term(o)
        if x is None:
            return False
        if self.t.eq(x):              # structurally the same term
            return True
        return SymBool(self.t == x)

    def __ne__(self, o):
        x = _int_term(o)
        if x is None:
            return True
        if self.t.eq(x):
            return False
        return SymBool(z3.Not(self.t == x))

    def __lt__(self, o):
        x = _int_term(o)
        return NotImplemented if x is None else SymBool(self.t < x)

    def __le__(self, o):
        x = _int_term(o)
        return NotImplemented if x is None else SymBool(self.t <= x)

    def __gt__(self, o):
        x = _int_term(o)
        return NotImplemented if x is None else SymBool(self.t > x)

    def __ge__(self, o):
        x = _int_term(o)
        return NotImplemented if x is None else SymBool(self.t >= x)

    # -- arithmetic (linear only)
    def _w(self, o):
        return self.W if self.W is not None else getattr(o, "W", None)

    def __add__(self, o):
        x = _int_term(o)
        return NotImplemented if x is None else SymInt(self.t + x, self._w(o))

    __radd__ = __add__

    def __sub__(self, o):
        x = _int_term(o)
        return NotImplemented if x is None else SymInt(self.t - x, self._w(o))

    def __rsub__(self, o):
        x = _int_term(o)
        return NotImplemented if x is None else SymInt(x - self.t, self._w(o))

    def __neg__(self):
        return SymInt(-self.t, self.W)

    def __pos__(self):
        return self

    def __abs__(self):
        return SymInt(z3.If(self.t >= 0, self.t, -self.t), self.W)

    def __mul__(self, o):
        if isinstance(o, int) and not isinstance(o, bool):
            return SymInt(self.t * o, self.W)
        raise Unsupported("non-linear or non-int multiplication")

    __rmul__ = __mul__

    def __floordiv__(self, o):
        if isinstance(o, int) and o > 0:
            return SymInt(self.t / o, self.W)      # z3 Int division floors for positive divisors
        raise Unsupported("floordiv")

    def __mod__(self, o):
        if isinstance(o, int) and o > 0:
            return SymInt(self.t % o, self.W)
        raise Unsupported("mod")

    def __int__(self):
        raise Unsupported("int() of a SymInt through the builtin")

    def __float__(self):
        raise Unsupported("float() of a SymInt")

    # -- text
    def __format__(self, spec):
        if spec not in ("", "d", ">3", ">3d", "3", "3d"):
            raise Unsupported(f"format spec {spec!r} on a SymInt")
        c = Ctx.cur
        k = len(c.terms)
        c.terms.append(self)
        c.term_width.append(3 if "3" in spec else 0)
        return PH_START + chr(PH_BASE + k) + PH_END

    def __str__(self):
        return self.__format__("")

    def __repr__(self):
        return self.__format__("")


# ---------------------------------------------------------------------------
# polymorphic helpers for harness code (work on plain values too)

def not_(x):
    if isinstance(x, SymBool):
        return SymBool(z3.Not(x.t))
    if z3.is_expr(x):
        return z3.Not(x)
    return not x


def all_(xs):
    xs = list(xs)
    if all(isinstance(x, bool) for x in xs):
        return all(xs)
    return SymBool(z3.And([_bool_term(x) for x in xs]))


def any_(xs):
    xs = list(xs)
    if all(isinstance(x, bool) for x in xs):
        return any(xs)
    return SymBool(z3.Or([_bool_term(x) for x in xs]))


def eq(a, b):
    """Equality as a condition (no fork).  None == None, None != anything else."""
    if a is None or b is None:
        return a is None and b is None
    if isinstance(a, (SymInt, SymBool)):
        return a == b
    if isinstance(b, (SymInt, SymBool)):
        return b == a
    return a == b


def implies(a, b):
    return any_([not_(a), b])


def distinct(xs):
    xs = list(xs)
    if any(isinstance(x, SymInt) for x in xs):
        return SymBool(z3.Distinct([_int_term(x) for x in xs])) if len(xs) > 1 else True
    return len(set(xs)) == len(xs)


def at_most(flags, k):
    flags = list(flags)
    if any(isinstance(f, SymBool) for f in flags):
        return SymBool(z3.Sum([z3.If(_bool_term(f), 1, 0) for f in flags]) <= k)      # portable (cvc5 has no pseudo-boolean atoms)
    return sum(1 for f in flags if f) <= k


# ---------------------------------------------------------------------------
# exploration

class PathResult:
    __slots__ = ("kind", "values", "failed", "notes", "exc", "decisions", "detail")

    def __init__(self, kind, values=None, failed=None, notes=None, exc=None, decisions=0, detail=None):
        self.kind = kind            # ok | violated | unsupported | cut | infeasible
        self.values = values        # model of the path (replay vector)
        self.failed = failed or []  # [(obligation name, counter-model values, info)]
        self.notes = notes or {}
        self.exc = exc
        self.decisions = decisions
        self.detail = detail


def run_path(body, prefix, stats, qtimeout_ms=10000):
    """Run `body(ctx)` on one symbolic path.  Returns (PathResult, trace)."""
    c = Ctx(prefix, stats, qtimeout_ms)
    Ctx.cur = c
    kind, exc, detail = "ok", None, None
    try:
        body(c)
    except Infeasible:
        kind = "infeasible"
    except Cut as e:
        kind, detail = "cut", str(e)
    except Unsupported as e:
        kind, detail = "unsupported", str(e)
    except SolverUnknown:
        raise
    except Exception as e:            # an exception of the code under test the harness did not expect
        kind, exc, detail = "exception", e, f"{type(e).__name__}: {e}"
    finally:
        Ctx.cur = None
    values = None
    failed = []
    if kind != "infeasible":
        r = c._check()
        if r != z3.sat:
            if r == z3.unknown:
                raise SolverUnknown("end of path")
            kind = "infeasible"
        else:
            m = c.solver.model()
            values = c.model_values(m)
            try:
                from .strings import instantiate, plain
                c.inst_notes = plain(instantiate(c.notes, m, c.terms, c.term_width))
            except Exception as e:      # a cut placeholder inside a note
                c.inst_notes = None
    if kind == "ok":
        for name, cond, info in c.obligations:
            cond_s = z3.simplify(cond)
            if z3.is_true(cond_s):
                continue
            r = c._check(z3.Not(cond_s))
            if r == z3.unknown:
                raise SolverUnknown(f"obligation {name}")
            # second-solver sample: every SAMPLE_EVERY-th end-of-path query is dumped for cvc5
            stats.ob_queries = getattr(stats, "ob_queries", 0) + 1
            if stats.ob_queries % SAMPLE_EVERY == 1 and len(getattr(stats, "smt_samples", [])) < SAMPLE_MAX:
                s2 = z3.Solver()
                s2.add(c.solver.assertions())
                s2.add(z3.Not(cond_s))
                stats.smt_samples = getattr(stats, "smt_samples", []) + [(str(r), s2.to_smt2())]
            if r == z3.sat:
                failed.append((name, c.model_values(c.solver.model()), info))
        if failed:
            kind = "violated"
    res = PathResult(kind, values, failed, c.notes, exc, len(c.trace), detail)
    res_ob = [(n, i) for n, _, i in c.obligations]
    return res, c.trace, res_ob, c


def next_prefix(trace):
    j = len(trace) - 1
    while j >= 0 and not (trace[j][0] and trace[j][1]):
        j -= 1
    if j < 0:
        return None
    return trace[:j] + [(False, None)]       # None: flipped decision (closed)


def run_concrete(body, values):
    """Run the harness body on plain values.  Returns (kind, obligations, notes, detail)."""
    c = ConcreteCtx(values)
    try:
        body(c)
    except AssumptionFailed as e:
        return "assumption", [], c.notes, str(e)
    except Cut as e:
        return "cut", [], c.notes, str(e)
    except Unsupported as e:          # the harness cannot drive this tree (e.g. a private helper it needs is gone)
        return "unsupported", [], c.notes, str(e)
    except Exception as e:
        return "exception", c.obligations, c.notes, f"{type(e).__name__}: {e}"
    return "ok", c.obligations, c.notes, None

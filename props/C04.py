"""C04 — canonical atom numbering: same molecule gives the same labelled graph"""
from props.common import *
from symx.driver import run_check


def jobs(tier):
    return pipeline_jobs("c04", tier)


def main(tier):
    return run_check(
        "C04", tier, jobs(tier), bounds=std_bounds(tier), assumptions=STD_ASSUME,
        outside=["n > 5 beyond the curated skeletons", "relabelings of the curated (non-closed) skeletons other than adjacent transpositions"],
        explanation="canonicalize_molecule on two listings of one abstract molecule; obligations: both results are numbered 0..n-1, atom k has the same element, mass, radical and partition class in both (label terms provably equal), edge sets equal")

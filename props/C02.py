"""C02 — different molecules never share a TUCAN string."""
from props.common import *
from symx.driver import run_check


def jobs(tier):
    js = pipeline_jobs("c02", tier, relists=(None,), curated_relist=None)
    # near-miss pairs (one bond toggled / one label moved): equal strings must imply isomorphic
    t = tier == "thorough"
    strata = [dict(name="S-shape/near-miss", ns=[2, 3, 4] if t else [2, 3], pin={3: 3, 4: 6}, params=dict(K_m=2 if t else 1, K_r=1))]
    if t:
        strata.append(dict(name="S-elem4/near-miss", ns=[3], pin={3: 3}, params=dict(K_m=1, K_r=1, alphabet=SIGMA_T4)))
    js += shape_strata("harness.pipeline", "c02pair", tier, quick=strata, thorough=strata, max_seconds=3000 if t else 240)
    js.append(job("harness.pipeline", "c02_wlpairs", "WL-pairs", {}, max_seconds=3000 if t else 240))
    # through the readers: a molecule written as a file, read, serialized, decoded independently
    rs = [dict(name="reader/v3000", ns=[2, 3] + ([4] if t else []), pin={3: 3, 4: 6}, params=dict(K_m=2, K_r=1, rad_hi=3, fmt="v3000")),
          dict(name="reader/v2000-one-entry-per-line", ns=[2, 3] + ([4] if t else []), pin={3: 3, 4: 6}, params=dict(K_m=2, K_r=2, rad_hi=3, fmt="v2000")),
          dict(name="reader/v2000-iso-first", ns=[2, 3], pin={3: 3}, params=dict(K_m=2, K_r=1, rad_hi=3, fmt="v2000", iso_first=True))]
    js += shape_strata("harness.readers", "c02_reader", tier, quick=rs, thorough=rs, max_seconds=3000 if t else 240)
    js.append(job("harness.readers", "c02_reader_big", "reader/v2000-120-atoms", {}, max_seconds=3000 if t else 240))
    return js


def main(tier):
    return run_check(
        "C02", tier, jobs(tier), bounds=dict(std_bounds(tier, relist=False), wl_pairs="non-isomorphic pairs with equal degree sequences (C6 ring vs 2xC3, C8 ring vs C4+C4, prism vs K3,3), one symbolic mass label at a solver-chosen atom (or none) on each side", near_miss="pairs (M, M'') inside one path: one solver-chosen bond toggled, or one label moved to another atom; n <= %d" % (4 if tier == "thorough" else 3)),
        assumptions=STD_ASSUME + ["left-inverse argument: if REF-DECODER(tucan(G)) is isomorphic to G for every G of the domain then tucan(G1) == tucan(G2) implies G1 ~ dec(s) ~ G2; REF-DECODER and REF-ISO share no code with tucan",
                                  "a missing label and the invariant code's default 0 are the same colour"],
        outside=["n > 5 beyond the curated skeletons", "WL-hard pairs beyond the curated skeletons"],
        stubs=["module attribute `int`/`float` of the reader modules shadowed (reader-level jobs)"],
        explanation="per path: the emitted segment string is decoded by the independent reference reader (label values stay terms); obligation: for some skeleton isomorphism (REF-ISO, concrete) the solver proves all label terms equal. Near-miss pairs: str_eq(s, s'') -> isomorphic must be valid.")

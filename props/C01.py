"""C01 — TUCAN string is invariant under atom/bond reordering of the input."""
from props.common import *
from symx.driver import run_check


def jobs(tier):
    js = pipeline_jobs("c01", tier)
    # the property's observation point is the molfile reader: the same relistings expressed in files
    t = tier == "thorough"
    strata = [dict(name="reader/v3000/S-shape", ns=[2, 3] + ([4] if t else []), pin={3: 3, 4: 6}, params=dict(K_m=1, K_r=1)),
              dict(name="reader/v3000/S-elem4", ns=[2] + ([3] if t else []), pin={3: 3}, params=dict(K_m=1, K_r=0, alphabet=SIGMA_T4)),
              dict(name="reader/v2000/S-shape", ns=[2, 3], pin={3: 3}, params=dict(K_m=1, K_r=1, v2000=True)),
              dict(name="reader/v2000-one-entry-per-line/S-shape", ns=[2, 3], pin={3: 3}, params=dict(K_m=2, K_r=0, v2000=True, one_entry_per_line=True)),
              dict(name="reader/v2000-descending-entries/S-shape", ns=[2, 3], pin={3: 3}, params=dict(K_m=2, K_r=0, v2000=True, descending_entries=True)),
              dict(name="reader/v2000-one-radical-per-line/S-shape", ns=[2, 3], pin={3: 3}, params=dict(K_m=0, K_r=2, rad_hi=3, v2000=True, one_entry_per_line=True))]
    js += shape_strata("harness.readers", "c01_reader", tier, quick=strata, thorough=strata, max_seconds=3000 if t else 240)
    js.append(job("harness.readers", "c01_reader_big", "reader/v2000-120-atoms", {}, max_seconds=3000 if t else 240))
    return js


def main(tier):
    return run_check(
        "C01", tier, jobs(tier), bounds=std_bounds(tier),
        assumptions=STD_ASSUME + ["invariance under every adjacent transposition for every member of a stratum closed under relabelling implies invariance under all n! relabelings inside the stratum"],
        outside=["n > 5 beyond the curated skeletons/molecules", "bond-listing permutations other than the listed generators", "reader-level relistings beyond n = 3 (quick) / 4 (thorough)"],
        stubs=["module attribute `int`/`float` of the reader modules shadowed (reader-level jobs)"],
        explanation="DSE of graph_from_molecule->canonicalize_molecule->serialize_molecule on two listings of one abstract molecule; obligation: the two emitted strings are equal for all label values on the path")

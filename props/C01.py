"""C01 — TUCAN string is invariant under atom/bond reordering of the input."""
from props.common import *
from symx.driver import run_check


def jobs(tier):
    return pipeline_jobs("c01", tier)


def main(tier):
    return run_check(
        "C01", tier, jobs(tier), bounds=std_bounds(tier),
        assumptions=STD_ASSUME + ["invariance under every adjacent transposition for every member of a stratum closed under relabelling implies invariance under all n! relabelings inside the stratum"],
        outside=["n > 5 beyond the curated skeletons", "bond-listing permutations other than the listed generators", "the molfile readers (reader-level relistings are part of C06/C07/C08)"],
        explanation="DSE of graph_from_molecule->canonicalize_molecule->serialize_molecule on two listings of one abstract molecule; obligation: the two emitted strings are equal for all label values on the path")

"""C01 — TUCAN string is invariant under atom/bond reordering of the input."""
from props.common import *
from symx.driver import run_check

M, F = "harness.pipeline", "c01"


def jobs(tier):
    if tier == "thorough":
        strata = [
            dict(name="S-shape/atoms", ns=[1, 2, 3, 4, 5], pin={4: 3, 5: 7}, params=dict(K_m=3, K_r=2, relist="atoms")),
            dict(name="S-shape/bonds", ns=[2, 3, 4, 5], pin={4: 2, 5: 6}, params=dict(K_m=2, K_r=1, relist="bonds")),
            dict(name="S-elem4/atoms", ns=[2, 3, 4], pin={3: 1, 4: 5}, params=dict(alphabet=SIGMA_T4, K_m=2, K_r=1, relist="atoms")),
            dict(name="S-elem6/atoms", ns=[2, 3], pin={3: 3}, params=dict(alphabet=SIGMA_Q, K_m=2, K_r=1, relist="atoms")),
        ]
        js = shape_strata(M, F, tier, thorough=strata, max_seconds=3000)
        km = 3
    else:
        strata = [
            dict(name="S-shape/atoms", ns=[1, 2, 3, 4], pin={4: 3}, params=dict(K_m=2, K_r=1, relist="atoms")),
            dict(name="S-shape/bonds", ns=[2, 3, 4], pin={4: 2}, params=dict(K_m=1, K_r=1, relist="bonds")),
            dict(name="S-elem/atoms", ns=[2, 3], pin={3: 3}, params=dict(alphabet=SIGMA_Q, K_m=1, K_r=1, relist="atoms")),
        ]
        js = shape_strata(M, F, tier, quick=strata, max_seconds=240)
        km = 2
    for name, (n, bonds) in CURATED.items():
        if tier != "thorough" and n > 8:
            continue
        js.append(job(M, F, f"S-curated/{name}", dict(n=n, bonds=[list(b) for b in bonds], K_m=km if n <= 8 else 2, K_r=1 if tier == "thorough" and n <= 6 else 0, relist="atoms"),
                      max_seconds=3000 if tier == "thorough" else 240))
    return js


def main(tier):
    js = jobs(tier)
    return run_check(
        "C01", tier, js,
        bounds={"atoms": "n <= 5 all labelled graphs (thorough) / n <= 4 (quick); curated skeletons up to 10 atoms",
                "labels": "at most K_m mass and K_r radical labels at solver-chosen atoms, values symbolic (>= 1, unbounded)",
                "relistings": "one adjacent transposition of the atom listing (generators of S_n; closed strata), bond listing reversed/rotated, bond orientation none/all/one flipped",
                "alphabets": {"S-shape": ["C"], "S-elem": SIGMA_Q if tier != "thorough" else [SIGMA_T4, SIGMA_Q]}},
        assumptions=STD_ASSUME + ["invariance under every adjacent transposition for every member of a stratum closed under relabelling implies invariance under all n! relabelings inside the stratum"],
        outside=["n > 5 beyond the curated skeletons", "bond-listing permutations other than the listed generators", "the molfile readers (covered at reader level by C06/C07/C08)"],
        explanation="DSE of graph_from_molecule->canonicalize_molecule->serialize_molecule on two listings of one abstract molecule; obligation: the two emitted strings are equal for all label values on the path",
    )

"""C15 — the pipeline completes for every non-empty molecule regardless of size/shape.

Bounded symbolic part: no exception for any molecule of the small strata.
Growth part (an argument, not a solver verdict): the maximal interpreter stack depth
reached inside the pipeline is measured for witness families at three sizes; a depth
that grows with size is extrapolated to the recursion limit, the witness is built at
that size and run for real in a fresh interpreter; VIOLATION only if that run raises."""
import json
import os
import subprocess
import sys
import time

from props.common import *
from symx.driver import run_check, VERIF

FAMILIES = ["chain", "labelled-chain", "ring", "comb", "ladder", "peptide", "star", "isolated", "pairs"]


def jobs(tier):
    return pipeline_jobs("c15", tier, relists=(None,), curated_relist=None, km_q=2, kr_q=1)


def _run(args, timeout):
    env = dict(os.environ, PYTHONPATH=VERIF)
    r = subprocess.run([sys.executable, "-m", "harness.scale"] + args, cwd=VERIF, env=env, capture_output=True, text=True, timeout=timeout)
    line = (r.stdout.strip().splitlines() or [""])[-1]
    try:
        return r.returncode, json.loads(line)
    except Exception:
        return r.returncode, {"ok": False, "error": (r.stdout + r.stderr)[-400:]}


def growth(tier):
    """Depth growth per family, extrapolation, scaled replay."""
    from concurrent.futures import ThreadPoolExecutor
    limit = sys.getrecursionlimit()
    cap = 5000
    obligations = []

    def one(fam):
        rc, depths = _run(["measure", fam, "64,128,256"], 600)
        if rc != 0 or not depths or "error" in depths:
            return {"name": f"scale/{fam}", "ok": None, "detail": f"depth measurement failed: {depths}"}
        pts = sorted((int(k), v) for k, v in depths.items())
        (n1, d1), (n2, d2) = pts[-2], pts[-1]
        slope = (d2 - d1) / (n2 - n1)
        detail = {"family": fam, "stack_depth_by_atoms": dict(pts), "slope_frames_per_atom": round(slope, 4), "recursion_limit": limit}
        if slope > 0.01:
            n_fail = n2 + (limit - d2) / slope
            n_wit = int(min(cap, n_fail * 1.1 + 50))
            detail["extrapolated_failure_size"] = int(n_fail)
            detail["witness_size"] = n_wit
            if n_fail > cap:
                return {"name": f"scale/{fam}", "ok": True, "detail": dict(detail, note=f"depth grows but reaches the limit only beyond {cap} atoms (outside the claim)")}
        else:
            # no growth seen: one real run at a size "in the thousands" (the families whose refinement depth
            # grows linearly with size get the larger sizes that fit the time budget)
            n_wit = {"chain": 2600, "labelled-chain": 2200, "peptide": 2400, "comb": 2400, "ladder": 2400}.get(fam, 3000) if tier == "quick" else \
                    {"chain": 5000, "labelled-chain": 4000, "peptide": 5000, "comb": 5000, "ladder": 5000}.get(fam, 5000)
            detail["witness_size"] = n_wit
        rc, res = _run(["run", fam, str(n_wit)], 3000)
        detail["scaled_run"] = res
        if rc == 0 and res.get("ok"):
            return {"name": f"scale/{fam}", "ok": True, "detail": detail}
        if rc == 1 and res.get("ok") is False and "error" in res:
            path = os.path.join(VERIF, "evidence", "replays", f"C15-scale-{fam}-{n_wit}.json")
            os.makedirs(os.path.dirname(path), exist_ok=True)
            with open(path, "w") as f:
                json.dump({"property": "C15", "kind": "scale", "family": fam, "n": n_wit, "cmd": f"python -m harness.scale run {fam} {n_wit}", "result": res, "growth": detail}, f, indent=1)
            return {"name": f"scale/{fam}", "ok": False, "detail": detail, "replay": path, "values": {"family": fam, "n": n_wit}}
        return {"name": f"scale/{fam}", "ok": None, "detail": detail}

    with ThreadPoolExecutor(max_workers=len(FAMILIES)) as ex:
        obligations = list(ex.map(one, FAMILIES))
    return obligations


def main(tier):
    t0 = time.time()
    from concurrent.futures import ThreadPoolExecutor
    with ThreadPoolExecutor(max_workers=1) as ex:
        fut = ex.submit(growth, tier)          # scaled replays run beside the symbolic jobs
        return run_check(
            "C15", tier, jobs(tier), t0=t0,
            bounds=dict(std_bounds(tier, relist=False), scale="witness families %s: stack depth measured at 64/128/256 atoms; scaled replay at the extrapolated failure size (<= 5000 atoms) or at a fixed large size when the depth does not grow; every scaled run has a 2 GiB address-space limit (RLIMIT_AS): the unchanged pipeline peaks near 0.15 GiB at these sizes" % FAMILIES),
            assumptions=STD_ASSUME + ["growth bridge: the symbolic engine decides small molecules only; sizes in the thousands are covered by measured stack-depth growth plus one real run per family in a fresh interpreter (default recursion limit %d) — an argument plus replay, not a solver verdict" % sys.getrecursionlimit()],
            outside=["sizes beyond the replayed witnesses", "families other than the listed ones", "graph_from_tucan on strings with symbolic numerals (the parse leg is exercised in the scaled replays and in C03/C10)"],
            explanation="no exception escapes graph_from_molecule/canonicalize_molecule/serialize_molecule for any molecule of the strata (all label values); plus stack-depth growth monitor and scaled replays (canonicalize, serialize, graph_from_tucan) per witness family",
            extra_obligations=fut)

"""C07 — the V3000 reader decodes exactly the molecule the file states."""
from props.common import *
from symx.driver import run_check

M = "harness.readers"


def jobs(tier):
    t = tier == "thorough"
    ms = 3000 if t else 240
    js = [
        *split(job(M, "c07_props", "props/C/subsets-orders-extra-keyword", dict(symbols=["C"]), max_seconds=ms), "xk", 15),
        job(M, "c07_props", "props/D-T-Cl", dict(symbols=["D", "T", "Cl", "H"], extra=False), max_seconds=ms),
        job(M, "c07_props", "props/coords", dict(symbols=["C"], extra=False, coords=True), max_seconds=ms),
        job(M, "c07_props", "props/coords-raw-spellings", dict(symbols=["C"], extra=False, coords_raw=True), max_seconds=ms),
        *split(job(M, "c07_table", "table/n2/one-prop", dict(n=2, props="one"), max_seconds=ms), "el0", 5),
        job(M, "c07_table", "table/n2/all-props", dict(n=2, props="all", symbols=["C", "D", "Cl"]), max_seconds=ms),
        job(M, "c07_table", "table/n3/bonds", dict(n=3, props="none", symbols=["C"], bond_extra=True, permute_lines=False), max_seconds=ms),
        job(M, "c07_table", "table/n3/bonds-lineorder", dict(n=3, props="none", symbols=["C", "O"], bond_extra=False), max_seconds=ms),
        *[j2 for j in split(job(M, "c07_table", "table/n3/star", dict(n=3, star=True, symbols=["C"], props="none"), max_seconds=ms), "star_extra", 3) for j2 in split(j, "src", 3)],
        job(M, "c07_layout", "layout/blank-runs", dict(mode="gap"), max_seconds=ms),
        job(M, "c07_file", "graph_from_file/tempfile", {}, max_seconds=ms),
        job(M, "c07_star_many", "table/star-with-many-endpoints", {}, max_seconds=ms),
        job(M, "c07_layout", "layout/continuation", dict(mode="split"), max_seconds=ms),
        job(M, "c07_layout", "layout/continuation-crlf", dict(mode="split", crlf=True), max_seconds=ms),
    ]
    js += [job("harness.strkernels", "k_any_split", "continuation/any-split", dict(max_len=5000 if t else 1000), max_seconds=ms),
           job("harness.strkernels", "k_any_split", "continuation/any-two-splits", dict(max_len=5000 if t else 1000, splits=2), max_seconds=ms)]
    if t:
        js += [
            job(M, "c07_layout", "layout/double-continuation", dict(mode="split", double=True), max_seconds=ms),
            job(M, "c07_table", "table/n4/star", dict(n=4, star=True, symbols=["C"], props="none"), max_seconds=ms),
            *[j2 for j in split(job(M, "c07_table", "table/n3/one-prop", dict(n=3, props="one", symbols=["C", "D", "T"], permute_lines=True), max_seconds=ms), "lineorder", 6) for j2 in split(j, "el0", 3)],
        ]
    return js


def main(tier):
    t = tier == "thorough"
    return run_check(
        "C07", tier, jobs(tier),
        bounds={"atoms": "1 atom line with every subset and order of CHG/RAD/MASS and one extra spec keyword at every position; 2-3 atoms (thorough 4) with symbolic unique indices in every file order, D/T symbols, solver-chosen bonds, one star atom with ENDPTS of every non-empty subset",
                "values": "CHG in [-15, 15], RAD in [0, 3], MASS >= 0 (explicit defaults included), bond types 1..10 (V3000) / 1..8 (V2000), the types the specification defines, file indices any distinct positive integers — all symbolic",
                "continuation lemma": "the real _concat_lines_with_dash on 'M  V30 '+line[:k]+'-' / 'M  V30 '+line[k:] for a line of symbolic length <= %d, symbolic characters and symbolic split position(s) k (one or two): reads back as the unsplit line" % (5000 if t else 1000),
                "layout": "one blank run of 2-3 at every gap of every atom/bond line; one continuation at every column of every atom/bond line of a fixed 3-atom file (numbers concrete there); CRLF",
                "keywords": "one of CFG VAL HCOUNT STBOX INVRET EXACHG SUBST UNSAT RBCNT ATTCHPT RGROUPS ATTCHORD CLASS SEQID on atom lines; CFG TOPO RXCTR STBOX on bond lines"},
        assumptions=["renderings are produced by REF-V3000 (/verif/ref/molfile_ref.py), written from the CTfile specification, independent of tucan",
                     "explicit 0 == absent is compared strictly on the node dictionary (the property names CHG=0, RAD=0, MASS=0)",
                     "z3 decides every branch of the reader on symbolic fields; per-path concrete replay"],
        stubs=["module attribute `int`/`float` of tucan.io.molfile_v3000_reader / molfile_v2000_reader shadowed to map a placeholder back to its term (pass-through on ordinary text)"],
        outside=["more than one extra keyword per line; SGROUP/COLLECTION blocks (C06)", "graph_from_file I/O", "continuations that cut a symbolic number"],
        explanation="REF-V3000 text with symbolic numeric fields -> real graph_from_molfile_text under symx; obligations: one node per non-star atom line in file order with the stated element/charge/radical/mass/coordinates (explicit 0 == absent), one edge per stated bond or ENDPTS member with the stated type")

"""Shared pieces of the per-property job lists."""
import os
import time

from harness.pipeline import shape_jobs

SIGMA_Q = ["H", "C", "O", "Br", "Cl", "Na"]
SIGMA_T4 = ["H", "C", "O", "Br"]

STD_ASSUME = [
    "molecule = simple graph on n atoms; element from the stated alphabet; optional mass >= 1 and radical >= 1 labels (symbolic, unbounded above)",
    "z3 5.1 (linear integer arithmetic over the label values) decides every branch of the real code that depends on a label value",
    "CPython, networkx and igraph/bliss are executed, not modelled (their inputs are concrete on every path)",
    "per-path cross-check: every path model is replayed on plain ints through the same real code; a disagreement is reported as an engine divergence",
]

CURATED = {
    "C6-ring": (6, [(i, (i + 1) % 6) for i in range(6)]),
    "prism": (6, [(0, 1), (1, 2), (2, 0), (3, 4), (4, 5), (5, 3), (0, 3), (1, 4), (2, 5)]),
    "K33": (6, [(a, b) for a in range(3) for b in range(3, 6)]),
    "2xC3": (6, [(0, 1), (1, 2), (2, 0), (3, 4), (4, 5), (5, 3)]),
    "star-K15": (6, [(0, i) for i in range(1, 6)]),
    "path-P8": (8, [(i, i + 1) for i in range(7)]),
    "cubane": (8, [(0, 1), (1, 2), (2, 3), (3, 0), (4, 5), (5, 6), (6, 7), (7, 4), (0, 4), (1, 5), (2, 6), (3, 7)]),
    "petersen": (10, [(i, (i + 1) % 5) for i in range(5)] + [(i, i + 5) for i in range(5)] + [(5 + i, 5 + (i + 2) % 5) for i in range(5)]),
    "C4+C4": (8, [(0, 1), (1, 2), (2, 3), (3, 0), (4, 5), (5, 6), (6, 7), (7, 4)]),
    "C8-ring": (8, [(i, (i + 1) % 8) for i in range(8)]),
    "chain-11": (11, [(i, i + 1) for i in range(10)]),
}


# curated multi-element molecules (the serializer's final sort by neighbour atomic numbers moves atoms in these)
CURATED_MOL = {
    "ethanol": (["C", "C", "O", "H", "H", "H", "H", "H", "H"], [(0, 1), (1, 2), (0, 3), (0, 4), (0, 5), (1, 6), (1, 7), (2, 8)]),
    "acetonitrile": (["C", "C", "N", "H", "H", "H"], [(0, 1), (1, 2), (0, 3), (0, 4), (0, 5)]),
    "chloroethanol": (["Cl", "C", "C", "O", "H", "H", "H", "H", "H"], [(0, 1), (1, 2), (2, 3), (1, 4), (1, 5), (2, 6), (2, 7), (3, 8)]),
    # hydrogens that are not terminal: two fragments that differ only behind a bridging hydrogen
    "NaHF+NaHCl": (["Na", "H", "F", "Na", "H", "Cl"], [(0, 1), (1, 2), (3, 4), (4, 5)]),
    "LiHBeF+LiHBeCl": (["Li", "H", "Be", "F", "Li", "H", "Be", "Cl"], [(0, 1), (1, 2), (2, 3), (4, 5), (5, 6), (6, 7)]),
    # periodic chain F-(S-Se-Te)6: every initial class is small (<= 6) but refinement needs many rounds (one per
    # repeat unit), so a bound on the number of rounds derived from the largest class is too small here
    "F(SSeTe)6": (["F"] + ["S", "Se", "Te"] * 6, [(i, i + 1) for i in range(18)]),
}


def tier_of(argv_tier=None):
    return argv_tier or os.environ.get("VERIF_TIER") or "quick"


def job(module, factory, name, params, **kw):
    d = {"module": module, "factory": factory, "name": name, "params": params}
    d.update(kw)
    return d


def shape_strata(module, factory, tier, *, extra=None, quick=None, thorough=None, max_seconds=None):
    """The S-shape and S-elem strata of DESIGN §5 as a job list."""
    extra = extra or {}
    jobs = []
    cfg = (thorough if tier == "thorough" else quick)
    for s in cfg:
        base = job(module, factory, s["name"], dict(extra, **s["params"]))
        if max_seconds:
            base["max_seconds"] = max_seconds
        for n in s["ns"]:
            jobs += shape_jobs(n, s.get("pin", {}).get(n, 0), base, s["name"])
    return jobs


# thorough tier: (K_m, K_r) per kind of second description and number of atoms
THOROUGH_LABELS = {
    "atoms": {1: (1, 1), 2: (2, 2), 3: (3, 2), 4: (3, 2), 5: (2, 1)},
    "bonds": {2: (2, 1), 3: (2, 1), 4: (2, 1), 5: (1, 0)},
    "labels": {2: (2, 1), 3: (2, 1), 4: (2, 1), 5: (1, 1)},
    "recanon": {2: (2, 1), 3: (2, 1), 4: (2, 1), 5: (1, 0)},
}


def pipeline_jobs(factory, tier, *, relists=("atoms", "bonds", "labels", "recanon", "recanon-scrambled", "recanon-edited", "keys"), elem=True, curated=True, extra=None,
                  module="harness.pipeline", scale=1.0, km_q=2, kr_q=1, km_t=3, kr_t=2, curated_relist="atoms",
                  n_max_q=4, n_max_t=5):
    """Standard strata of DESIGN §5 for a graph-level harness."""
    extra = extra or {}
    thorough = tier == "thorough"
    ms = 3000 if thorough else 240
    strata = []
    nmax = n_max_t if thorough else n_max_q
    pin_shape = {4: 4, 5: 8}
    for r in relists:
        kind = "atoms" if r in ("atoms", None) else ("bonds" if r == "bonds" else ("recanon" if r.startswith("recanon") else "labels"))
        for n in range(1 if kind == "atoms" else 2, nmax + 1):
            if thorough:
                km, kr = THOROUGH_LABELS[kind][n]
                if kind == "atoms":
                    km, kr = min(km, km_t), min(kr, kr_t)
            elif kind == "atoms":
                km, kr = km_q, kr_q
            elif kind == "bonds":
                km, kr = 1, 0
            else:
                km, kr = 1, 1
            par = dict(K_m=km, K_r=kr)
            if r is not None:
                par["relist"] = r
            strata.append(dict(name=f"S-shape/{r or 'single'}", ns=[n], pin=pin_shape, params=par))
    if elem:
        r = relists[0]
        par = {} if r is None else {"relist": r}
        if thorough:
            strata.append(dict(name="S-elem4", ns=[2, 3], pin={3: 3}, params=dict(par, K_m=2, K_r=1, alphabet=SIGMA_T4)))
            strata.append(dict(name="S-elem4", ns=[4], pin={4: 6}, params=dict(par, K_m=1, K_r=0, alphabet=SIGMA_T4)))
            strata.append(dict(name="S-elem6", ns=[2, 3], pin={3: 3}, params=dict(par, K_m=1, K_r=1, alphabet=SIGMA_Q)))
        else:
            strata.append(dict(name="S-elem6", ns=[2], pin={}, params=dict(par, K_m=1, K_r=1, alphabet=SIGMA_Q)))
            strata.append(dict(name="S-elem4", ns=[3], pin={3: 3}, params=dict(par, K_m=1, K_r=1, alphabet=SIGMA_T4)))
    js = shape_strata(module, factory, tier, extra=extra, quick=strata, thorough=strata, max_seconds=ms)
    if curated:
        for name, (n, bonds) in CURATED.items():
            if not thorough and n > 8 and not (name == "chain-11" and factory in ("c03", "c05", "c11")):
                continue
            par = dict(extra, n=n, bonds=[list(b) for b in bonds], K_m=(3 if n <= 6 else 2) if thorough else (2 if n <= 6 else 1),
                       K_r=1 if thorough and n <= 8 else 0)
            if curated_relist is not None:
                par["relist"] = curated_relist
            js.append(job(module, factory, f"S-curated/{name}", par, max_seconds=ms))
            if curated_relist is not None and (thorough or n <= 8):
                for r in ("labels", "recanon"):
                    js.append(job(module, factory, f"S-curated/{name}/{r}", dict(par, relist=r, K_m=min(par["K_m"], 1), K_r=0), max_seconds=ms))
        for name, (els, bonds) in CURATED_MOL.items():
            if not thorough and name in ("chloroethanol", "LiHBeF+LiHBeCl", "F(SSeTe)6") and factory not in ("c13",):
                continue
            par = dict(extra, n=len(els), elements=els, bonds=[list(b) for b in bonds], K_m=1, K_r=1 if thorough else 0)
            if curated_relist is not None:
                par["relist"] = curated_relist
            js.append(job(module, factory, f"S-molecule/{name}", par, max_seconds=ms))
            if thorough and curated_relist is not None:
                for r in ("labels", "keys", "bonds"):
                    js.append(job(module, factory, f"S-molecule/{name}/{r}", dict(par, relist=r), max_seconds=ms))
    return js


def std_bounds(tier, relist=True):
    t = tier == "thorough"
    b = {"atoms": "all labelled simple graphs on n <= %d atoms; curated skeletons (C6 ring, prism, K3,3, 2xC3, star K1,5, P8, cubane, C4+C4, C8 ring%s); curated molecules (ethanol, acetonitrile, Na-H-F + Na-H-Cl with bridging hydrogens; thorough and C13: 2-chloroethanol, Li-H-Be-F + Li-H-Be-Cl, the periodic chain F-(S-Se-Te)6 of 19 atoms) with one label at a solver-chosen atom" % (5 if t else 4, ", Petersen" if t else ""),
         "labels": "at most K_m mass and K_r radical labels at solver-chosen atoms (%s; per-stratum values in `strata`), values symbolic integers >= 1, unbounded above" % ("thorough: K_m<=3, K_r<=2 up to 4 atoms, K_m<=2, K_r<=1 at 5 atoms for listing transpositions; fewer for the other description kinds: " + str(THOROUGH_LABELS) if t else "quick: K_m<=2, K_r<=1 for listing transpositions, K_m<=1, K_r<=1 otherwise"),
         "alphabets": {"S-shape": ["C"], "S-elem6 (n<=%d)" % (3 if t else 2): SIGMA_Q, "S-elem4 (n<=%d)" % (4 if t else 3): SIGMA_T4}}
    if relist:
        b["relistings_of_graph_objects"] = "keys: the declared indices (dict keys handed to graph_from_molecule) of two adjacent listing positions exchanged, so that indices do not ascend in listing order; labels: two solver-chosen adjacent labels exchanged without changing the node iteration order (nx.relabel_nodes); recanon: the canonical graph itself fed back in (its listing order differs from its numbering); recanon-scrambled: the canonical graph renumbered with nx.relabel_nodes and fed back in; recanon-edited: the molecule plus a pendant atom at a solver-chosen position is canonicalized, the pendant atom is deleted from the result and the edited graph (stale partition values, non-contiguous labels) is fed back in"
        b["relistings"] = "one adjacent transposition of the atom listing at a solver-chosen position (generators of S_n; the strata are closed under relabelling); bond listing reversed / rotated; bond orientation none / all / one solver-chosen bond flipped"
    return b


def split(j, name, n):
    """Split a job into n jobs by pinning the structural choice `name` to 0..n-1."""
    out = []
    for v in range(n):
        params = dict(j["params"])
        params["_pins"] = dict(params.get("_pins", {}), **{name: v})
        out.append(dict(j, params=params, name=f"{j['name']}/{name}={v}"))
    return out

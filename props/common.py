"""Shared pieces of the per-property job lists."""
import os
import time

from harness.pipeline import shape_jobs

SIGMA_Q = ["H", "C", "O", "Br", "Cl", "Na"]
SIGMA_T4 = ["H", "C", "O", "Br"]

STD_ASSUME = [
    "molecule = simple graph on n atoms; element from the stated alphabet; optional mass >= 1 and radical >= 1 labels (symbolic, unbounded above)",
    "z3 5.1 (linear integer arithmetic over the label values) decides every branch of the real code that depends on a label value",
    "CPython, networkx and igraph/bliss are executed, not modelled (their inputs are concrete on every path)",
    "per-path cross-check: every path model is replayed on plain ints through the same real code; a disagreement is reported as an engine divergence",
]

CURATED = {
    "C6-ring": (6, [(i, (i + 1) % 6) for i in range(6)]),
    "prism": (6, [(0, 1), (1, 2), (2, 0), (3, 4), (4, 5), (5, 3), (0, 3), (1, 4), (2, 5)]),
    "K33": (6, [(a, b) for a in range(3) for b in range(3, 6)]),
    "2xC3": (6, [(0, 1), (1, 2), (2, 0), (3, 4), (4, 5), (5, 3)]),
    "star-K15": (6, [(0, i) for i in range(1, 6)]),
    "path-P8": (8, [(i, i + 1) for i in range(7)]),
    "cubane": (8, [(0, 1), (1, 2), (2, 3), (3, 0), (4, 5), (5, 6), (6, 7), (7, 4), (0, 4), (1, 5), (2, 6), (3, 7)]),
    "petersen": (10, [(i, (i + 1) % 5) for i in range(5)] + [(i, i + 5) for i in range(5)] + [(5 + i, 5 + (i + 2) % 5) for i in range(5)]),
    "C4+C4": (8, [(0, 1), (1, 2), (2, 3), (3, 0), (4, 5), (5, 6), (6, 7), (7, 4)]),
    "C8-ring": (8, [(i, (i + 1) % 8) for i in range(8)]),
}


def tier_of(argv_tier=None):
    return argv_tier or os.environ.get("VERIF_TIER") or "quick"


def job(module, factory, name, params, **kw):
    d = {"module": module, "factory": factory, "name": name, "params": params}
    d.update(kw)
    return d


def shape_strata(module, factory, tier, *, extra=None, quick=None, thorough=None, max_seconds=None):
    """The S-shape and S-elem strata of DESIGN §5 as a job list."""
    extra = extra or {}
    jobs = []
    cfg = (thorough if tier == "thorough" else quick)
    for s in cfg:
        base = job(module, factory, s["name"], dict(extra, **s["params"]))
        if max_seconds:
            base["max_seconds"] = max_seconds
        for n in s["ns"]:
            jobs += shape_jobs(n, s.get("pin", {}).get(n, 0), base, s["name"])
    return jobs

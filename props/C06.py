"""C06 — TUCAN depends only on elements, isotopes, radicals and connectivity."""
from props.common import *
from symx.driver import run_check

M = "harness.readers"


def jobs(tier):
    t = tier == "thorough"
    ms = 3000 if t else 240
    strata = [dict(name="v3000/S-shape", ns=[1, 2, 3] + ([4] if t else []), pin={3: 3, 4: 6}, params=dict(K_m=1, K_r=1)),
              dict(name="v3000/S-elem4", ns=[2] + ([3] if t else []), pin={3: 3}, params=dict(K_m=1, K_r=0, alphabet=SIGMA_T4))]
    strata.append(dict(name="v3000-trailing-blanks/S-shape", ns=[2], pin={}, params=dict(K_m=1, K_r=0, trailing_blanks=True)))
    js = []
    for j in shape_strata(M, "c06", tier, quick=strata, thorough=strata, max_seconds=ms):
        js += split(j, "variant", 7) if j["params"]["n"] >= 2 else [j]
    strata2 = [dict(name="v2000/S-shape", ns=[2, 3] + ([4] if t else []), pin={3: 3, 4: 6}, params=dict(K_m=1, K_r=1, crlf=False)),
               dict(name="v2000-crlf/S-shape", ns=[2, 3], pin={3: 3}, params=dict(K_m=1, K_r=0, crlf=True))]
    strata2.append(dict(name="v2000/superseded-codes", ns=[2, 3] if t else [2], pin={3: 3}, params=dict(K_m=0, K_r=1, stale=True)))
    strata2.append(dict(name="v2000/unrelated-lines", ns=[2, 3] if t else [2], pin={3: 3}, params=dict(K_m=1, K_r=1 if t else 0, unrelated=True)))
    strata2.append(dict(name="v2000/after-M-END", ns=[2, 3], pin={3: 3}, params=dict(K_m=1, K_r=0, after_end=True)))
    strata2.append(dict(name="v2000-codes/DT", ns=[2, 3] if t else [2], pin={3: 3}, params=dict(K_m=0, K_r=1, alphabet=["C", "D"], codes=True)))
    if not t:
        # 3 atoms, no bonds pinned away: C/D elements, charge codes on every atom, no labels
        strata2.append(dict(name="v2000-codes/DT-unlabelled", ns=[3], pin={3: 3}, params=dict(K_m=0, K_r=0, alphabet=["C", "D"], codes=True, _pins={"e0_1": True})))
    js += shape_strata(M, "c06_v2000", tier, quick=strata2, thorough=strata2, max_seconds=ms)
    return js


def main(tier):
    t = tier == "thorough"
    return run_check(
        "C06", tier, jobs(tier),
        bounds={"atoms": "all labelled graphs on n <= %d atoms (S-shape), n <= %d over {H, C, O, Br}; <= 1 mass and <= 1 radical label (symbolic values >= 1)" % ((4, 3) if t else (3, 2)),
                "non-identity data (second rendering)": "file atom indices (any distinct positive integers), formal charge of every atom in [-15, 15] (explicit CHG=0 on the first atom only), bond type of every bond (1..10, the types the specification defines), atom-atom mapping number: all symbolic; plus one of: header/comment lines (80 chars, text containing V2000 / M  END / M  V30), one extra atom keyword (14), one extra bond keyword (4), a trailing COLLECTION/SGROUP/OBJ3D block, CRLF line ends, a coordinate from the boundary list, reversed property order",
                "v2000": "coordinates, bond types (symbolic), bond stereo field, M  CHG charges (symbolic) or atom-block charge codes on every atom (incl. D atoms), header lines, CRLF, atom-block charge codes 0..7 superseded by M  CHG lines, one unrelated line (M  STY, M  ALS, A, V, G, S  SKP, M  SAL, M  RGP) at every position of the property block, content after M  END (SD data items, a following record with M  ISO/RAD/CHG lines)"},
        assumptions=["renderings by REF-V3000 / REF-V2000, independent of tucan", "z3 decides every branch on symbolic fields; per-path concrete replay"],
        stubs=["module attribute `int`/`float` of the two reader modules shadowed to map a placeholder back to its term"],
        outside=["more than one variant at a time", "n > 4"],
        explanation="two renderings of one abstract molecule that differ only in non-identity data -> real reader -> canonicalize -> serialize under symx; obligation: the two strings are equal for all values of the symbolic fields")

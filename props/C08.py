"""C08 — the V2000 reader agrees with V3000 on the same molecule."""
from props.common import *
from symx.driver import run_check

M = "harness.readers"


def jobs(tier):
    t = tier == "thorough"
    ms = 3000 if t else 240
    js = [
        job(M, "c08", "codes/n2", dict(n=2, mode="codes"), max_seconds=ms),
        job(M, "c08", "codes/n3", dict(n=3, mode="codes"), max_seconds=ms),
        *split(job(M, "c08", "codes/n2/DT", dict(n=2, mode="codes", symbols=["C", "D", "T"]), max_seconds=ms), "el0", 3),
        *split(job(M, "c08", "stale-codes+iso/n2", dict(n=2, mode="stale", with_iso=True, strings=False), max_seconds=ms), "stale_code", 7),
        job(M, "c08", "lines/n2", dict(n=2, mode="lines"), max_seconds=ms),
        job(M, "c08", "lines+iso/n2", dict(n=2, mode="lines", with_iso=True, chiral=False), max_seconds=ms),
        job(M, "c08_plus", "plus-signed-values", {}, max_seconds=ms),
        *split(job(M, "c08", "lines/n2/unrelated", dict(n=2, mode="lines", unrelated=True, strings=False), max_seconds=ms), "unrelated", 9),
        *split(job(M, "c08", "stale-codes/n2", dict(n=2, mode="stale"), max_seconds=ms), "stale_code", 7),
        job(M, "c08", "iso/n2/DT", dict(n=2, mode="iso", symbols=["C", "H", "D", "T"]), max_seconds=ms),
        job(M, "c08", "iso/n2/DT+charge-line", dict(n=2, mode="iso", symbols=["C", "D", "T"], with_charge_line=True), max_seconds=ms),
        job(M, "c08", "iso/n3/unrelated", dict(n=3, mode="iso", symbols=["C", "D"], unrelated=True, strings=False), max_seconds=ms),
        job(M, "c08", "bonds/n3", dict(n=3, mode="bonds"), max_seconds=ms),
    ]
    for go in range(6):
        js.append(job(M, "c08", f"layout/n2/order{go}", dict(n=2, mode="layout", grouporder=go), max_seconds=ms))
    js.append(job(M, "c08_big", "n999/concrete", dict(n=999) if t else dict(n=300), max_seconds=ms))
    if t:
        js += [*split(job(M, "c08", "stale-codes/n3", dict(n=3, mode="stale", strings=False), max_seconds=ms), "stale_code", 7),
               *split(job(M, "c08", "codes/n3/DT", dict(n=3, mode="codes", symbols=["C", "D", "T"], strings=False), max_seconds=ms), "el0", 3),
               *split(job(M, "c08", "lines/n3/unrelated", dict(n=3, mode="lines", unrelated=True, strings=False), max_seconds=ms), "unrelated", 9),
               *[job(M, "c08", f"layout/n3/order{go}", dict(n=3, mode="layout", grouporder=go), max_seconds=ms) for go in range(6)],
               job(M, "c08", "lines/n3", dict(n=3, mode="lines"), max_seconds=ms),
               job(M, "c08", "iso/n3/DT", dict(n=3, mode="iso", symbols=["C", "H", "D", "T"]), max_seconds=ms),
               job(M, "c08", "bonds/n4", dict(n=4, mode="bonds"), max_seconds=ms)]
        for tag in ("CHG", "RAD", "ISO"):
            for go in (0, 3, 5):
                js.append(job(M, "c08", f"layout/n9/{tag}-grouping/order{go}", dict(n=9, mode="layout", grouporder=go, group_choice=[tag], unrelated=False), max_seconds=ms))
    return js


def main(tier):
    t = tier == "thorough"
    return run_check(
        "C08", tier, jobs(tier),
        bounds={"atoms": "2-3 atoms (thorough: 9 atoms so that M  CHG/RAD/ISO need two or three lines; 4 atoms for bonds)",
                "values": "M  CHG values in [-15, 15], M  RAD in [0, 3] (explicit 0 included), M  ISO >= 1, bond types 1..10 (V3000) / 1..8 (V2000), the types the specification defines: symbolic, read through fixed-width fields",
                "encodings": "atom-block charge code 0..7 on every atom; property lines only; property lines plus a stale atom-block code (must be ignored), also with an M  ISO line in every position relative to the CHG/RAD lines; charge codes on D/T atoms; D/T symbols with M  ISO on other atoms, with and without an M  CHG line",
                "header": "chiral flag 0 or 1 in the counts line; explicitly plus-signed values in the value fields (concrete)", "layout": "every grouping of the entries into <= 3 lines of <= 8, all 6 orders of the CHG/RAD/ISO groups, one unrelated line (M  STY, M  ALS, A, V, G, S  SKP, M  SAL, M  RGP) at every position, one atom-list line counted in lll"},
        assumptions=["renderings by REF-V2000 / REF-V3000 (/verif/ref/molfile_ref.py), independent of tucan",
                     "charges, radicals, masses are compared as attrs.get(key, 0) (a stored zero is not a difference); the TUCAN strings must be equal",
                     "the V3000 rendering omits default values"],
        stubs=["module attribute `int`/`float` of the two reader modules shadowed to map a placeholder back to its term"],
        outside=["files beyond one concrete %d-atom chain per tier (three-digit fields filled to the last column at 999)" % (999 if t else 300), "the atom-block mass-difference field dd (the reader documents that it ignores it)", "S  SKP semantics (skipped lines are benign text here)"],
        explanation="REF-V2000 and REF-V3000 renderings of one abstract molecule -> real reader on both under symx; obligations: both graphs equal the abstract molecule attribute for attribute and bond for bond, and serialize(canonicalize()) gives equal strings")

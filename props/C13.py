"""C13 — partition classes are label-independent, equitable and respect symmetry"""
from props.common import *
from symx.driver import run_check


def jobs(tier):
    return pipeline_jobs("c13", tier)


def main(tier):
    return run_check(
        "C13", tier, jobs(tier), bounds=std_bounds(tier), assumptions=STD_ASSUME,
        outside=["n > 5 beyond the curated skeletons", "relabelings of the curated (non-closed) skeletons other than adjacent transpositions"],
        explanation="canonicalize_molecule on two listings; obligations: class(tag) equal in both; atoms of one class have provably equal invariant codes and equal neighbour-class multisets; every skeleton automorphism (REF-ISO) that separates two classes provably cannot preserve all label colours")

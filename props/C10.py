"""C10 — the parser accepts exactly the grammar and returns the denoted graph."""
import os
from concurrent.futures import ThreadPoolExecutor

from props.common import *
from symx.driver import run_check, REPO

M = "harness.parser"

BLOCKS = [[], [["mass"]], [["rad"]], [["mass", "rad"]], [["rad", "mass"]], [["mass", "mass"]], [["mass"], ["mass"]], [["mass"], ["rad"]], [["rad", "mass"], ["rad"]]]
FORMULAS_Q = [[["C", 1]], [["C", 2], ["H", 1]], [["H", 2], ["O", 1]], [["C", 1], ["Br", 1]], []]
FORMULAS_T = FORMULAS_Q + [[["C", 1], ["H", 3], ["Cl", 1]], [["C", 11]], [["Cl", 2], ["Na", 1]], [["C", 2]], [["C", 3]], [["C", 2], ["H", 2]], [["H", 1]], [["C", 1], ["H", 1], ["Br", 1], ["Cl", 1]]]


def jobs(tier):
    t = tier == "thorough"
    ms = 3000 if t else 240
    js = []
    for f in (FORMULAS_T if t else FORMULAS_Q):
        fname = "".join(f"{s}{c if c > 1 else ''}" for s, c in f) or "empty"
        for nt in range(0, 4 if t else 3):
            for bi, blocks in enumerate(BLOCKS):
                if not t and nt == 2 and len(blocks) > 1:
                    continue
                if t and nt == 3 and len(blocks) > 1 and sum(c for _, c in f) > 3:
                    continue
                n_atoms = sum(c for _, c in f)
                if n_atoms > 4 and (nt > 1 or (nt == 1 and len(blocks) > 1)):
                    continue        # index-mode numerals fork ~n+3 ways each: keep the product of forks bounded
                js.append(job(M, "c10sem", f"sem/{fname}/t{nt}/b{bi}", dict(formula=f, tuples=nt, blocks=blocks), max_seconds=ms))
    return js


def grammar(tier):
    from atnre.check import grammar_obligations
    obs, stats = grammar_obligations(REPO, second_opinion=True, runtime_tests=True, thorough=(tier == "thorough"))
    for o in obs:
        if o.get("ok") is False and o.get("replay"):
            o["replay_cmd"] = "python -m atnre.replay " + o["replay"]
    return obs


def main(tier):
    import time
    t0 = time.time()
    with ThreadPoolExecutor(max_workers=1) as ex:
        fut = ex.submit(grammar, tier)
        return run_check(
            "C10", tier, jobs(tier), t0=t0,
            bounds={"syntax (E3)": "token strings of ANY length: L(ATN of tucanParser) = L(EBNF transcription) by z3 regular-expression inclusion both ways; lexer: each of the 137 token definitions equals its EBNF terminal for strings of any length",
                    "semantics (E1)": "sentence skeletons: formulas %s; 0..%d tuples; attribute blocks %s; EVERY tuple index, attribute index and attribute value symbolic (>= 1, unbounded; indices in index mode with watch range n+3)" % ((FORMULAS_T if tier == "thorough" else FORMULAS_Q), 3 if tier == "thorough" else 2, BLOCKS),
                    "edits": "every one-token insertion/deletion/replacement/transposition (15-token alphabet) of solver-generated sentences: concrete differential run against REF-DECODER (solver-seeded testing, not a for-all claim)"},
            assumptions=["the ANTLR runtime interprets the ATN it deserialises (validated by solver-generated sentences through every token and by one-token edits run on the real parser; a mismatch is reported as inconclusive)",
                         "ANTLR's documented maximal-munch lexing", "REF-GRAMMAR/REF-DECODER (/verif/ref/tucan_ref.py, tucan_grammar.py) transcribe tucan.ebnf by hand; a changed tucan.ebnf makes the check inconclusive",
                         "z3 5.1 sequence/regex theory; unsat verdicts re-decided by the cvc5 1.0.3 binary on the SMT-LIB2 dump", "token lift (numeral-uniformity lemma, decided here)"],
            stubs=["module attribute `int` of tucan.parser.parser shadowed", "tucan.parser.parser._walk_tree wrapped to rewrite numeral token texts"],
            outside=["numerals longer than what the solver picks (CPython's 4300-digit int limit)", "characters outside the token alphabet beyond what one-token edits inject", "skeletons beyond the listed ones"],
            explanation="E3: ATN -> regex by per-rule state elimination, compared with the EBNF transcription by z3 regex inclusion (both directions, no length bound), lexer token definitions likewise, vacuity twins. E1: the real parser+listener on sentences whose numerals are all symbolic; obligations: accepted iff the reference condition (indices <= n, no self-bond, no attribute twice) holds on the path, rejection only by TucanParserException, accepted graph = formula atoms by atomic number + listed bond set + listed attributes",
            extra_obligations=fut)

"""C09 — written molfiles read back as the same molecule, at any line length."""
from concurrent.futures import ThreadPoolExecutor

from props.common import *
from symx.driver import run_check, REPO

M = "harness.writer"


def jobs(tier):
    t = tier == "thorough"
    ms = 3000 if t else 240
    ex = dict(rad_hi=3)
    strata = [dict(name="L2/S-shape", ns=[1, 2, 3] + ([4] if t else []), pin={3: 3, 4: 6}, params=dict(ex, K_m=2 if t else 1, K_r=1)),
              dict(name="L2/S-elem4", ns=[2] + ([3] if t else []), pin={3: 3}, params=dict(ex, K_m=1, K_r=1, alphabet=SIGMA_T4))]
    js = shape_strata(M, "c09", tier, quick=strata, thorough=strata, max_seconds=ms)
    js += shape_strata(M, "c09", tier, quick=[dict(name="L2/scrambled-labels", ns=[2, 3], pin={3: 3}, params=dict(ex, K_m=1, K_r=0, scramble=True))], thorough=[dict(name="L2/scrambled-labels", ns=[2, 3, 4], pin={3: 3, 4: 6}, params=dict(ex, K_m=1, K_r=0, scramble=True))], max_seconds=ms)
    js.append(job(M, "c09", "L2/default-bond-type/n3", dict(ex, n=3, K_m=0, K_r=0, default_bond_type=True), max_seconds=ms))
    strata3 = [dict(name="L3/S-shape", ns=[1, 2, 3] + ([4] if t else []), pin={3: 3, 4: 6}, params=dict(ex, K_m=2 if t else 1, K_r=1)),
               dict(name="L3/S-elem4", ns=[2] + ([3] if t else []), pin={3: 3}, params=dict(ex, K_m=1, K_r=0, alphabet=SIGMA_T4))]
    js += shape_strata(M, "c09_l3", tier, quick=strata3, thorough=strata3, max_seconds=ms)
    n, bonds = CURATED["chain-11"]
    js.append(job(M, "c09_l3", "L3/chain-11", dict(ex, n=n, bonds=[list(b) for b in bonds], K_m=1, K_r=0), max_seconds=ms))
    K = "harness.strkernels"
    js.append(job(K, "k_wrap_splice", "L1/symbolic-line", dict(max_len=5000 if t else 1000), max_seconds=ms))
    js.append(job(K, "k_any_split", "L1/any-split", dict(max_len=5000 if t else 1000), max_seconds=ms))
    js.append(job(K, "k_any_split", "L1/any-two-splits", dict(max_len=5000 if t else 1000, splits=2), max_seconds=ms))
    js.append(job(M, "c09_big", "index-width/12-and-1001-atoms", {}, max_seconds=ms))
    js.append(job(M, "c09_lengths", "lengths/sweep", dict(kmax=150), max_seconds=ms))
    js.append(job(M, "c09_lengths", "lengths/sweep-1e300", dict(kmax=80 if t else 30, big=True), max_seconds=ms))
    return js


def kernels(tier):
    from kernels.run import kernel_obligations
    return kernel_obligations(REPO, tier)


def main(tier):
    import time
    t0 = time.time()
    t = tier == "thorough"
    with ThreadPoolExecutor(max_workers=1) as ex:
        fut = ex.submit(kernels, tier)
        return run_check(
            "C09", tier, jobs(tier), t0=t0,
            bounds={"L1 (E1 on SymStr)": "the real _add_v30_line and _concat_lines_with_dash on a line of SYMBOLIC length <= %d with symbolic characters (rope over an uninterpreted character function, LIA+UF): every number of wraps, every content-dependent branch (dashes, blanks at the cut); a continuation at one or two symbolic split positions" % (5000 if t else 1000),
                    "L1 (E2, CrossHair)": "splice(wrap(line)) == line and every physical line <= 79 chars for EVERY string line of length <= %d not ending in '-'; a continuation at any split of any line of <= %d chars reads back as the unsplit line" % (150 if t else 80, 20 if t else 10),
                    "L2 (E1)": "all labelled graphs n <= %d, {H,C,O,Br} n <= %d; charge in [-15,15] nonzero (presence forked), radical in 1..3, mass >= 1, bond type any integer: all symbolic; coordinates concrete incl. values that need rounding at the 6th decimal" % ((4, 3) if t else (3, 2)),
                    "L3 (E1)": "string -> graph (token lift) -> molfile -> graph -> string on the same strata plus an 11-atom chain",
                    "lengths": "3-atom graph, x coordinate 10^k for every k < 150 (every alignment of the wrap position with the later tokens), bond type 10^(k mod 60), z = -1e300 variant (five wraps per line): concrete values, solver-enumerated k"},
            assumptions=["decomposition: reader = parse . tokenize . splice, writer = wrap . format; given L1 the line length is irrelevant to what the reader sees, so L2 is decided on lines whose symbolic numbers are rendered as 3-character placeholders",
                         "L1b: no line the writer formats ends in '-' (checked on every path of L2: a line ending in '-' must be a full 79-character continuation line)",
                         "REF-V3000-READER (/verif/ref/molfile_ref.py) settles well-formedness independently", "float formatting ({x:.6f}, float()) is C code and is executed, not modelled"],
            stubs=["module attribute `int`/`float` of the reader modules shadowed", "token lift stubs (L3)", "module attribute `len` of tucan.io.molfile_writer shadowed while _add_v30_line runs on a SymStr (len() must return an int)", "characters the kernels inspect are assumed printable ASCII (32..126); str.strip/rstrip on symbolic content unwound to 4 characters"],
            outside=["lines longer than the L1 bound with arbitrary content (the exact-length sweep covers up to ~330 characters for specific content)", "calc_coordinates=True (scipy layout)", "attributes outside the format's ranges"],
            explanation="E1: graph_to_molfile -> graph_from_molfile_text with symbolic attributes; obligations: well-formed V3000 (independent reader), physical lines <= 79+newline, same atoms in the same order, charge/radical/mass equal (strict presence), coordinates to six decimals, same bonds and bond types. E2: CrossHair on _add_v30_line/_concat_lines_with_dash with a symbolic line.",
            extra_obligations=fut)

"""C11 — any valid spelling of a molecule normalizes to its one canonical string."""
from props.common import *
from symx.driver import run_check
from harness.parser import KINDS

M = "harness.parser"


def jobs(tier):
    t = tier == "thorough"
    ms = 3000 if t else 240
    strata = [dict(name="S-shape", ns=[1, 2, 3] + ([4] if t else []), pin={3: 3, 4: 6}, params=dict(K_m=1, K_r=1)),
              dict(name="S-elem4", ns=[2, 3] if t else [2], pin={3: 3}, params=dict(K_m=1, K_r=0, alphabet=SIGMA_T4))]
    js = []
    for j in shape_strata(M, "c11", tier, quick=strata, thorough=strata, max_seconds=ms):
        n = j["params"]["n"]
        js += split(j, "respell", len(KINDS)) if (n >= 4 or (n >= 3 and "alphabet" in j["params"])) else [j]
    if not t:
        # multi-element molecules on 3 atoms (the final sort by neighbour atomic numbers moves atoms): a subset of the respelling kinds
        for j in shape_strata(M, "c11", tier, quick=[dict(name="S-elem4", ns=[3], pin={3: 3}, params=dict(K_m=1, K_r=0, alphabet=SIGMA_T4, kinds=["identity", "tuples-reversed", "renumber-in-block"]))], max_seconds=ms):
            js.append(j)
    # two radical labels on 4 atoms (neighbours that differ only in their radical state), a subset of the respelling kinds
    r4 = [dict(name="S-shape/two-radicals", ns=[4], pin={4: 4}, params=dict(K_m=0, K_r=2, kinds=["tuples-reversed", "renumber-in-block", "endpoints-all"]))]
    js += shape_strata(M, "c11", tier, quick=r4, thorough=r4, max_seconds=ms)
    cur = ["C6-ring", "K33", "chain-11"] + (["prism", "cubane", "2xC3", "path-P8"] if t else [])
    for name in cur:
        n, bonds = CURATED[name]
        js += split(job(M, "c11", f"S-curated/{name}", dict(n=n, bonds=[list(b) for b in bonds], K_m=1, K_r=1 if n <= 6 else 0, **({} if t else {"label_atoms": [0, 1]})), max_seconds=ms), "respell", len(KINDS))
    for name in ("ethanol", "acetonitrile"):
        els, bonds = CURATED_MOL[name]
        kinds = KINDS if t else ["identity", "tuples-reversed", "endpoints-all", "renumber-in-block", "blocks-split"]
        js += split(job(M, "c11", f"S-molecule/{name}", dict(n=len(els), elements=els, bonds=[list(b) for b in bonds], K_m=1, K_r=1 if t else 0, kinds=kinds), max_seconds=ms), "respell", len(kinds))
    return js


def main(tier):
    return run_check(
        "C11", tier, jobs(tier),
        bounds=dict(std_bounds(tier, relist=False), atoms="all labelled graphs n <= %d; {H,C,O,Br} n <= %d; curated skeletons incl. an 11-atom chain; <= 1 mass and <= 1 radical label, values symbolic" % ((4, 3) if tier == "thorough" else (3, 2)),
                    respellings="one of: tuples reversed / rotated / one adjacent swap; endpoints of all / one tuple swapped; one tuple repeated (either orientation; in front, right behind the original or at the end); attribute blocks reversed; blocks split into one block per property (either order); properties inside blocks reversed; two adjacent atom numbers inside one element block exchanged everywhere"),
        assumptions=STD_ASSUME + ["token lift as in C03 (justified by the numeral-uniformity lemma of C10)", "the starting spelling of each molecule is written by the harness without the library (blocks of increasing atomic number, Hill formula); the library's own string for the molecule must be the same normal form"],
        stubs=["module attribute `int` of tucan.parser.parser shadowed", "tucan.parser.parser._walk_tree wrapped to rewrite numeral token texts"],
        outside=["compositions of two or more respelling kinds", "n > 4 beyond the curated skeletons"],
        explanation="a library-independent valid spelling s0 of an abstract molecule, one solver-chosen respelling s1; norm = serialize . canonicalize . graph_from_tucan (token lift); obligations: norm(s1) == norm(s0), norm(norm(s0)) == norm(s0), tucan(M) == norm(s0) for all attribute values")

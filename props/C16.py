"""C16 — the permutation helper returns a faithful relabelled copy."""
from props.common import *
from symx.driver import run_check


def jobs(tier):
    t = tier == "thorough"
    strata = [dict(name="S-shape/permute", ns=[1, 2, 3, 4], pin={4: 4}, params=dict(K_m=1, K_r=0, max_shuffles=3 if t else 2))]
    strata.append(dict(name="S-shape/permute-seed0", ns=[2, 3], pin={}, params=dict(K_m=0, K_r=0, max_shuffles=2, seed=0.0)))
    strata.append(dict(name="S-shape/permute-scrambled-input", ns=[2, 3, 4], pin={4: 4}, params=dict(K_m=0, K_r=0, max_shuffles=2, scramble=True, seed=0.5)))
    if t:
        strata.append(dict(name="S-shape/permute5", ns=[5], pin={5: 8}, params=dict(K_m=0, K_r=0, max_shuffles=2, real_rng=False)))
        strata.append(dict(name="S-elem4/permute", ns=[3], pin={3: 3}, params=dict(K_m=1, K_r=0, alphabet=SIGMA_T4, max_shuffles=2)))
    return shape_strata("harness.pipeline", "c16", tier, quick=strata, thorough=strata, max_seconds=3000 if t else 240)


def main(tier):
    t = tier == "thorough"
    return run_check(
        "C16", tier, jobs(tier),
        bounds={"atoms": "all labelled graphs on n <= 4 atoms (thorough: n = 5 with one retry)", "shuffle": "every outcome of random.shuffle (all n! permutations, chosen by the solver) for the first shuffle and for each retry up to depth %d; deeper retries are cut and counted" % (3 if t else 2),
                "data": "unique tag, symbolic charge, symbolic bond types, <= 1 symbolic mass label", "seeds": "0.25, 0.5 and the boundary 0.0", "inputs": "graphs whose numbering equals their listing order, and graphs with two adjacent labels exchanged (nx.relabel_nodes)"},
        assumptions=STD_ASSUME + ["RNG contract: random.seed(s) followed by the same calls yields the same shuffles; 'same seed, same result' is discharged through this contract (seed is called with the given seed before the first shuffle and nothing else of `random` is used), not by executing the Mersenne Twister"],
        stubs=["tucan.graph_utils.random replaced by a stub whose shuffle applies a solver-chosen permutation and whose seed records its argument"],
        outside=["the Mersenne Twister itself (executed for 16 seeds per path in a concrete leg: same seed under two different states of the global generator must give the same graph)", "retry depth beyond the cut", "n > 5"],
        explanation="permute_molecule(G, seed) with the shuffle outcome symbolic; obligations: same label set, tag->label bijection that is an isomorphism carrying all atom and bond attribute terms, atoms listed in label order, argument unchanged, seed-before-shuffle, changed edge set when |E| >= 2 and not complete")

"""C03 — a TUCAN string reconstructs its molecule and is a fixed point of the pipeline."""
from props.common import *
from symx.driver import run_check


def jobs(tier):
    js = pipeline_jobs("c03", tier, relists=(None,), curated_relist=None, module="harness.parser")
    strata = [dict(name="S-shape/scrambled-labels", ns=[2, 3, 4], pin={4: 4}, params=dict(K_m=1, K_r=1, scramble=True))]
    js += shape_strata("harness.parser", "c03", tier, quick=strata, thorough=strata, max_seconds=3000 if tier == "thorough" else 240)
    return js


def big(tier):
    """One concrete leg at a size with four-digit indices: labelled chain and peptide-like backbone of 1200 atoms
    (quick) / 3000 (thorough): parse(tucan(G)) has the same counts and reproduces the string."""
    import json, os, subprocess, sys
    from symx.driver import VERIF
    out = []
    n = 3000 if tier == "thorough" else 1200
    for fam in ("labelled-chain", "peptide"):
        r = subprocess.run([sys.executable, "-m", "harness.scale", "run", fam, str(n)], cwd=VERIF, env=dict(os.environ, PYTHONPATH=VERIF, VERIF_SCALE_FIXED_POINT="1"),
                           capture_output=True, text=True, timeout=3000)
        try:
            res = json.loads((r.stdout.strip().splitlines() or ["{}"])[-1])
        except Exception:
            res = {"ok": None, "error": (r.stdout + r.stderr)[-300:]}
        o = {"name": f"big/{fam}-{n}", "ok": True if r.returncode == 0 and res.get("ok") else (False if r.returncode == 1 and res.get("ok") is False else None), "detail": res}
        if o["ok"] is False:
            path = os.path.join(VERIF, "evidence", "replays", f"C03-big-{fam}-{n}.json")
            os.makedirs(os.path.dirname(path), exist_ok=True)
            json.dump({"property": "C03", "kind": "scale", "family": fam, "n": n, "cmd": f"VERIF_SCALE_FIXED_POINT=1 python -m harness.scale run {fam} {n}", "result": res}, open(path, "w"), indent=1)
            o["replay"] = path
            o["values"] = {"family": fam, "n": n}
        out.append(o)
    return out


def main(tier):
    from concurrent.futures import ThreadPoolExecutor
    with ThreadPoolExecutor(max_workers=1) as ex:
        fut = ex.submit(big, tier)
        return _main(tier, fut)


def _main(tier, fut):
    return run_check(
        "C03", tier, jobs(tier), bounds=dict(std_bounds(tier, relist=False), multi_digit="11-atom chain (indices 10, 11) among the curated skeletons"),
        assumptions=STD_ASSUME + ["token lift: the real graph_from_tucan runs on an instance of the emitted string; before the real listener walks the real parse tree the numeral tokens that stem from symbolic values are set back to placeholders and `int` is shadowed in tucan.parser.parser, so the listener computes on terms. Justified by the numeral-uniformity lemma decided in C10 (the parse tree does not depend on which numeral >= 1 stands at a value position)",
                                  "a missing label and the invariant code's default 0 are the same colour; label presence counts are compared strictly in addition"],
        stubs=["module attribute `int` of tucan.parser.parser shadowed (pass-through on ordinary text)", "tucan.parser.parser._walk_tree wrapped to rewrite numeral token texts before the real walk"],
        outside=["n > 5 beyond the curated skeletons", "all 118 element slots at once (covered by the grammar check of C10/C05)"],
        extra_obligations=fut,
        explanation="pipeline -> segment string s -> real parser+listener (token lift) -> parsed graph P; obligations: P isomorphic to M with all label terms provably equal (REF-ISO skeleton isomorphisms), atom and bond counts equal, serialize(canonicalize(P)) == s for all values")

"""C03 — a TUCAN string reconstructs its molecule and is a fixed point of the pipeline."""
from props.common import *
from symx.driver import run_check


def jobs(tier):
    js = pipeline_jobs("c03", tier, relists=(None,), curated_relist=None, module="harness.parser")
    strata = [dict(name="S-shape/scrambled-labels", ns=[2, 3, 4], pin={4: 4}, params=dict(K_m=1, K_r=1, scramble=True))]
    js += shape_strata("harness.parser", "c03", tier, quick=strata, thorough=strata, max_seconds=3000 if tier == "thorough" else 240)
    return js


def main(tier):
    return run_check(
        "C03", tier, jobs(tier), bounds=dict(std_bounds(tier, relist=False), multi_digit="11-atom chain (indices 10, 11) among the curated skeletons"),
        assumptions=STD_ASSUME + ["token lift: the real graph_from_tucan runs on an instance of the emitted string; before the real listener walks the real parse tree the numeral tokens that stem from symbolic values are set back to placeholders and `int` is shadowed in tucan.parser.parser, so the listener computes on terms. Justified by the numeral-uniformity lemma decided in C10 (the parse tree does not depend on which numeral >= 1 stands at a value position)",
                                  "a missing label and the invariant code's default 0 are the same colour; label presence counts are compared strictly in addition"],
        stubs=["module attribute `int` of tucan.parser.parser shadowed (pass-through on ordinary text)", "tucan.parser.parser._walk_tree wrapped to rewrite numeral token texts before the real walk"],
        outside=["n > 5 beyond the curated skeletons", "all 118 element slots at once (covered by the grammar check of C10/C05)"],
        explanation="pipeline -> segment string s -> real parser+listener (token lift) -> parsed graph P; obligations: P isomorphic to M with all label terms provably equal (REF-ISO skeleton isomorphisms), atom and bond counts equal, serialize(canonicalize(P)) == s for all values")

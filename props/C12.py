"""C12 — canonicalization only renames atoms; nothing is lost, added or mutated."""
from props.common import *
from symx.driver import run_check


def jobs(tier):
    js = pipeline_jobs("c12", tier, relists=(None,), curated_relist=None)
    # bonds without any attribute (as graph_from_tucan builds them) and with an extra attribute
    bv = [dict(name="S-shape/bond-attribute-variants", ns=[2, 3, 4], pin={4: 4}, params=dict(K_m=1, K_r=0, bond_variants=True))]
    js += shape_strata("harness.pipeline", "c12", tier, quick=bv, thorough=bv, max_seconds=3000 if tier == "thorough" else 240)
    # inputs whose numbering differs from their listing order (e.g. the output of nx.relabel_nodes or of canonicalize_molecule)
    strata = [dict(name="S-shape/scrambled-labels", ns=[2, 3, 4], pin={4: 4}, params=dict(K_m=1, K_r=0, scramble=True))]
    strata.append(dict(name="S-shape/labels-not-0..n-1", ns=[1, 2, 3], pin={}, params=dict(K_m=1, K_r=0, offset_labels=True)))
    js += shape_strata("harness.pipeline", "c12", tier, quick=strata, thorough=strata, max_seconds=3000 if tier == "thorough" else 240)
    return js


def main(tier):
    return run_check(
        "C12", tier, jobs(tier), bounds=dict(std_bounds(tier, relist=False), extra="every atom carries a unique tag, a symbolic charge in [-15, 15] and concrete coordinates; every bond a symbolic bond type (any integer), except one solver-chosen bond without any attribute and one with an extra attribute; call histories of length <= 3 on the same objects"),
        assumptions=STD_ASSUME + ["bookkeeping keys excluded from 'attributes': partition, explored (scratch flag set by serialize_molecule)"],
        outside=["n > 5 beyond the curated skeletons", "histories longer than 3 calls"],
        explanation="graph_from_molecule -> canonicalize_molecule -> serialize_molecule with deep snapshots before/after each call; obligations: tag->node bijection onto 0..n-1, every attribute term carried, bond types carried by tag pair, input graph unchanged, repeated calls give equal graphs/strings")

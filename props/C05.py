"""C05 — every emitted string obeys the published grammar and canonical layout."""
from concurrent.futures import ThreadPoolExecutor

from props.common import *
from symx.driver import run_check, REPO


def jobs(tier):
    t = tier == "thorough"
    ms = 3000 if t else 240
    js = pipeline_jobs("c05", tier, relists=(None,), curated_relist=None)
    n11, b11 = CURATED["chain-11"]
    js.append(job("harness.pipeline", "c05", "S-curated/chain-11/two-labels", dict(n=n11, bonds=[list(b) for b in b11], K_m=2, K_r=1, label_atoms=[0, 4, 5, 10]), max_seconds=ms))
    R = "harness.readers"
    js += [job(R, "c05_reader", "reader/v3000/n2", dict(n=2, fmt="v3000"), max_seconds=ms),
           job(R, "c05_reader", "reader/v2000/n2", dict(n=2, fmt="v2000"), max_seconds=ms)]
    # S-formula: all 1- and 2-element subsets of the 118 symbols, {C, x}, {C, H, x}
    P = "harness.pipeline"
    counts = [1, 2, 11] if t else [1, 2]
    js.append(job(P, "c05_formula", "S-formula/singles", dict(k=1, counts=[1, 2, 11]), max_seconds=ms))
    step = 8 if t else 10
    for lo in range(0, 118, step):
        js.append(job(P, "c05_formula", f"S-formula/pairs/{lo}", dict(k=2, counts=counts, range=[lo, min(lo + step, 118)]), max_seconds=ms))
    js.append(job(P, "c05_formula", "S-formula/C+x", dict(k=1, first=["C"], counts=[1, 2, 11]), max_seconds=ms))
    js.append(job(P, "c05_formula", "S-formula/C+H+x", dict(k=1, first=["C", "H"], counts=counts), max_seconds=ms))
    if t:
        for lo in range(0, 20):
            js.append(job(P, "c05_formula", f"S-formula/triples20/{lo}", dict(k=3, counts=[1, 2], range=[lo, lo + 1]), max_seconds=ms))
    return js


def grammar(tier):
    from atnre.check import grammar_obligations
    obs, _ = grammar_obligations(REPO, second_opinion=False, runtime_tests=False)
    return [o for o in obs if o["name"].startswith(("grammar/", "lexer/"))]


def main(tier):
    import time
    t0 = time.time()
    with ThreadPoolExecutor(max_workers=1) as ex:
        fut = ex.submit(grammar, tier)
        return run_check(
            "C05", tier, jobs(tier), t0=t0,
            bounds=dict(std_bounds(tier, relist=False),
                        reader_level="2-atom V3000 and V2000 files over {C, H, D} with symbolic CHG in [-15,15], RAD in [0,3], MASS >= 0 (explicit zeros included) on every atom",
                        s_formula="bond-less molecules: every 1- and 2-element subset of the 118 symbols, {C, x} and {C, H, x} for every x, counts from %s%s" % ([1, 2, 11] if tier == "thorough" else [1, 2], "; 3-element subsets starting in the first 20 symbols" if tier == "thorough" else ""),
                        grammar="REF-GRAMMAR itself is compared with the parser's automaton (E3, token strings of any length)"),
            assumptions=STD_ASSUME + ["the validator (REF-GRAMMAR, REF-LAYOUT, REF-HILL in /verif/ref) shares no code with the library", "graph-level domain: what the parser can produce (labels >= 1); reader-level domain: what a conformant file can state (explicit 0 included)",
                                      "pairwise agreement of Python's string order with the grammar's slot order for every pair (with and without carbon) implies agreement for every subset"],
            stubs=["module attribute `int`/`float` of the reader modules shadowed (reader-level jobs)"],
            outside=["n > 5 beyond the curated skeletons", "element subsets of size > 3 in one molecule"],
            explanation="emitted segment string judged by REF-GRAMMAR/REF-LAYOUT: sentence of the EBNF, Hill formula of the molecule, tuples a<b strictly ascending once each, one attribute block per labelled atom in ascending index order carrying that atom's label terms, all values provably >= 1",
            extra_obligations=fut)

"""Evaluate the checks against another tree (a seeded change or an old commit).

  python3 tools_seed.py tree <dir> [C01 C02 ...]          run quick checks with VERIF_REPO=<dir>, print exit codes
  python3 tools_seed.py patch <patch.diff> [C01 ...]      scratch worktree of /repo HEAD + patch, run checks, remove it
Evidence files written during these runs are restored afterwards (they belong to /repo runs only)."""
import json
import os
import shutil
import subprocess
import sys
import tempfile
import time

VERIF = os.path.dirname(os.path.abspath(__file__))
ALL = ["C01", "C02", "C03", "C04", "C05", "C06", "C07", "C08", "C09", "C10", "C11", "C12", "C13", "C15", "C16"]


def run_checks(tree, props, tier="quick"):
    out = {}
    keep = tempfile.mkdtemp(prefix="evkeep")
    for p in props:
        src = os.path.join(VERIF, "evidence", f"{p}.json")
        if os.path.exists(src):
            shutil.copy(src, keep)
    try:
        for p in props:
            t0 = time.time()
            r = subprocess.run([os.path.join(VERIF, "check"), p, "--tier", tier], cwd=VERIF, env=dict(os.environ, VERIF_REPO=tree),
                               capture_output=True, text=True)
            viol = [ln for ln in r.stdout.splitlines() if ln.startswith("VIOLATION")]
            fail = [ln.strip()[:260] for ln in r.stdout.splitlines() if ln.strip().startswith("failing obligation")]
            inc = [ln[:200] for ln in r.stdout.splitlines() if ln.startswith("INCONCLUSIVE")]
            out[p] = {"exit": r.returncode, "violations": len(viol), "first": fail[:1], "inconclusive": inc[:2], "s": round(time.time() - t0)}
            print(p, json.dumps(out[p]), flush=True)
            if r.returncode == 2:
                print(r.stderr[-1500:])
    finally:
        for p in props:
            k = os.path.join(keep, f"{p}.json")
            if os.path.exists(k):
                shutil.copy(k, os.path.join(VERIF, "evidence", f"{p}.json"))
        shutil.rmtree(keep)
    return out


def main():
    mode, target = sys.argv[1], sys.argv[2]
    props = sys.argv[3:] or ALL
    if mode == "tree":
        run_checks(target, props)
    elif mode == "patch":
        d = tempfile.mkdtemp(prefix="seedeval", dir="/tmp")
        os.rmdir(d)
        subprocess.run(["git", "-C", "/repo", "worktree", "add", "-q", "--detach", d, "HEAD"], check=True)
        try:
            subprocess.run(["git", "-C", d, "apply", os.path.abspath(target)], check=True)
            run_checks(d, props)
        finally:
            subprocess.run(["git", "-C", "/repo", "worktree", "remove", "--force", d])


if __name__ == "__main__":
    main()

"""Parser harnesses: symbolic numerals through the real ANTLR tree (token lift),
C03 (round trip / fixed point), C11 (respellings), C10 semantics."""
from __future__ import annotations

import itertools

from symx.core import Ctx, all_, any_, eq, not_, SymInt, SymBool, Unsupported, PH_START, PH_END, PH_BASE
from symx.strings import str_eq, has_ph, install_shadows, term_of_char, ge
from harness.pipeline import dom, graph_of, canon, ser, iso_condition, T as PT
from ref.elements import Z_OF

_loaded = {}


def T():
    if not _loaded:
        import tucan.parser.parser as P
        _loaded.update(P=P)
    return _loaded


def warmup():
    from harness.pipeline import warmup as w
    w()
    T()["P"].graph_from_tucan("C2H6O/(1-3)(2-3)(3-9)/(9:mass=17,rad=2)")


def _terminals(tree):
    stack = [tree]
    while stack:
        node = stack.pop()
        kids = getattr(node, "children", None)
        if kids:
            stack.extend(kids)
        elif hasattr(node, "symbol"):
            yield node.symbol


def lifted_graph_from_tucan(c, s):
    """graph_from_tucan(s) where s may contain placeholders for numerals.

    The real graph_from_tucan runs on an instance of s (placeholders replaced by values of
    the current path's model); just before the real listener walks the real parse tree the
    text of the numeral tokens that stem from placeholders is set back to the placeholder,
    and `int` is shadowed in tucan.parser.parser, so the listener computes on the terms.
    Justified by the numeral-uniformity lemma of the grammar check (C10/E3): the parse tree
    does not depend on which numeral >= 1 stands at an index/value position."""
    P = T()["P"]
    if not c.symbolic or not has_ph(s):
        return P.graph_from_tucan(s)
    install_shadows([P])
    out, spans, i = [], {}, 0
    pos = 0
    while i < len(s):
        if s[i] == PH_START:
            if i + 2 >= len(s) or s[i + 2] != PH_END:
                raise Unsupported("placeholder cut")
            term = term_of_char(s[i + 1])
            txt = str(c.eval_now(term.t))
            spans[pos] = s[i:i + 3]
            out.append(txt)
            pos += len(txt)
            i += 3
        else:
            out.append(s[i])
            pos += 1
            i += 1
    text = "".join(out)
    orig = P._walk_tree

    def walk(tree):
        for tok in _terminals(tree):
            if tok.start in spans:
                tok.text = spans[tok.start]
        return orig(tree)
    P._walk_tree = walk
    try:
        return P.graph_from_tucan(text)
    finally:
        P._walk_tree = orig


def graph_view(g):
    nodes = sorted(g.nodes)
    el = [g.nodes[k].get("element_symbol") for k in nodes]
    mass = [g.nodes[k].get("mass") for k in nodes]
    rad = [g.nodes[k].get("rad") for k in nodes]
    pos = {k: i for i, k in enumerate(nodes)}
    bonds = [(pos[u], pos[v]) for u, v in g.edges()]
    return el, bonds, mass, rad


# ---------------------------------------------------------------------------
# C03 — the string reconstructs the molecule and is a fixed point

def c03(**p):
    def body(c):
        mol = dom(c, p)
        n = mol.n
        g0 = graph_of(mol.listing())
        if p.get("scramble"):
            from harness.pipeline import scramble
            g0 = scramble(c, g0)          # a description whose numbering differs from its listing order
        s = ser(canon(g0))
        c.note("mol", mol.describe())
        c.note("tucan", s)
        g = lifted_graph_from_tucan(c, s)
        el, bonds, mass, rad = graph_view(g)
        c.oblige("same-atom-and-bond-counts", g.number_of_nodes() == n and g.number_of_edges() == len(mol.bonds), [g.number_of_nodes(), g.number_of_edges()])
        cond, nphi = iso_condition(n, el, bonds, mass, rad, mol.elements, list(mol.bonds), mol.mass, mol.rad)
        c.oblige("parsed-graph-isomorphic-to-molecule", cond)
        # strict presence: a label is present on the parsed graph iff it is on the molecule
        c.oblige("label-counts", sum(v is not None for v in mass) == sum(v is not None for v in mol.mass)
                 and sum(v is not None for v in rad) == sum(v is not None for v in mol.rad))
        s2 = ser(canon(g))
        c.note("tucan_of_parsed", s2)
        c.oblige("fixed-point", str_eq(s, s2))
    return body


# ---------------------------------------------------------------------------
# C11 — respellings normalise to the one canonical string

def render(formula, tuples, blocks):
    f = "".join(sym + (str(cnt) if cnt > 1 else "") for sym, cnt in formula)
    t = "".join(f"({a}-{b})" for a, b in tuples)
    bl = "".join(f"({i}:" + ",".join(f"{k}={v}" for k, v in props) + ")" for i, props in blocks)
    return f + "/" + t + ("/" + bl if bl else "")


def respell(c, d, kinds):
    """One solver-chosen meaning-preserving respelling of the parsed sentence d."""
    tuples = list(d.tuples)
    blocks = [(i, list(props)) for i, props in d.blocks]
    kind = kinds[c.choice("respell", len(kinds))]
    nt = len(tuples)
    info = [kind]
    if kind == "tuples-reversed":
        tuples.reverse()
    elif kind == "tuples-rotated" and nt > 1:
        tuples = tuples[1:] + tuples[:1]
    elif kind == "tuples-adjacent-swap" and nt > 1:
        k = c.choice("tswap", nt - 1)
        tuples[k], tuples[k + 1] = tuples[k + 1], tuples[k]
        info.append(k)
    elif kind == "endpoints-all":
        tuples = [(b, a) for a, b in tuples]
    elif kind == "endpoints-one" and nt > 0:
        k = c.choice("eswap", nt)
        tuples[k] = (tuples[k][1], tuples[k][0])
        info.append(k)
    elif kind == "tuple-repeated" and nt > 0:
        k = c.choice("rep", nt)
        at = (0, k + 1, nt)[c.choice("rep_at", 3)]            # in front, right behind the original, at the end
        rep = tuples[k] if c.flag("rep_same_orientation") else (tuples[k][1], tuples[k][0])
        tuples.insert(at, rep)
        info += [k, at]
    elif kind == "blocks-reversed":
        blocks.reverse()
    elif kind == "blocks-split":
        blocks = [(i, [pr]) for i, props in blocks for pr in props]
        if c.flag("split_reversed"):
            blocks.reverse()
    elif kind == "props-reversed":
        blocks = [(i, list(reversed(props))) for i, props in blocks]
    elif kind == "renumber-in-block":
        # swap two adjacent atom numbers inside one element block, everywhere
        starts, pos = [], 1
        for sym, cnt in sorted(d.formula, key=lambda x: Z_OF[x[0]]):
            for j in range(cnt - 1):
                starts.append(pos + j)
            pos += cnt
        if starts:
            a = starts[c.choice("renum", len(starts))]
            m = {a: a + 1, a + 1: a}
            tuples = [(m.get(x, x), m.get(y, y)) for x, y in tuples]
            blocks = [(m.get(i, i), props) for i, props in blocks]
            info.append(a)
    return tuples, blocks, info


KINDS = ["identity", "tuples-reversed", "tuples-rotated", "tuples-adjacent-swap", "endpoints-all", "endpoints-one",
         "tuple-repeated", "blocks-reversed", "blocks-split", "props-reversed", "renumber-in-block"]


def norm(c, s):
    return ser(canon(lifted_graph_from_tucan(c, s)))


class RefSentence:
    pass


def ref_spelling(mol):
    """A valid spelling of the abstract molecule written WITHOUT the library: atoms in blocks of
    increasing atomic number (stable), Hill formula, tuples a<b ascending, one block per labelled atom."""
    from ref.elements import hill_formula
    order = sorted(range(mol.n), key=lambda a: Z_OF[mol.elements[a]])
    idx = {a: i + 1 for i, a in enumerate(order)}
    d = RefSentence()
    counts = {}
    for e in mol.elements:
        counts[e] = counts.get(e, 0) + 1
    hf = hill_formula(mol.elements)
    # formula as (symbol, count) in Hill order
    syms = []
    if "C" in counts:
        syms.append("C")
        if "H" in counts:
            syms.append("H")
        syms += sorted(k for k in counts if k not in ("C", "H"))
    else:
        syms = sorted(counts)
    d.formula = [(k, counts[k]) for k in syms]
    d.tuples = sorted(tuple(sorted((idx[a], idx[b]))) for (a, b) in mol.bonds)
    d.blocks = []
    for a in order:
        props = []
        if mol.mass[a] is not None:
            props.append(("mass", mol.mass[a]))
        if mol.rad[a] is not None:
            props.append(("rad", mol.rad[a]))
        if props:
            d.blocks.append((idx[a], props))
    assert render(d.formula, [], []).startswith(hf)
    return d


def c11(**p):
    def body(c):
        mol = dom(c, p)
        d = ref_spelling(mol)
        s0 = render(d.formula, d.tuples, d.blocks)          # a valid spelling, independent of the serializer
        tuples, blocks, info = respell(c, d, p.get("kinds", KINDS))
        s1 = render(d.formula, tuples, blocks)
        c.note("mol", mol.describe())
        c.note("spelling", s0)
        c.note("respelling", info)
        c.note("respelled", s1)
        n0 = norm(c, s0)
        n1 = norm(c, s1)
        c.note("norm", n0)
        c.note("norm_respelled", n1)
        c.oblige("respelling-normalises-to-the-same-string", str_eq(n1, n0))
        c.oblige("normalisation-idempotent", str_eq(norm(c, n0), n0))
        # the library's own rendering of the molecule is one more valid spelling
        s2 = ser(canon(graph_of(mol.listing())))
        c.oblige("pipeline-string-is-the-normal-form", str_eq(s2, n0))
    return body


# ---------------------------------------------------------------------------
# C10 semantics — accept/reject and denoted graph vs the reference reader, all numerals symbolic

FORMULAS = [[("C", 1)], [("C", 2)], [("C", 2), ("H", 1)], [("H", 2), ("O", 1)], [("C", 1), ("Br", 1)],
            [("C", 1), ("H", 3), ("Cl", 1)], [("C", 11)], [], [("Cl", 2), ("Na", 1)]]


def c10sem(**p):
    """Sentence skeleton: a formula, nt tuples, a list of attribute blocks (key lists);
    every tuple and attribute index and every attribute value is symbolic."""
    formula = [tuple(x) for x in p["formula"]]
    nt = p["tuples"]
    blocks_keys = p["blocks"]         # e.g. [["mass"], ["rad", "mass"]]
    hill_ok = p.get("hill_ok", True)

    def body(c):
        P = T()["P"]
        n = sum(cnt for _, cnt in formula)
        W = n + 3
        tup = [(c.int(f"a{k}", lo=1, W=W), c.int(f"b{k}", lo=1, W=W)) for k in range(nt)]
        blocks = []
        for bi, keys in enumerate(blocks_keys):
            blocks.append((c.int(f"x{bi}", lo=1, W=W), [(key, c.int(f"v{bi}_{ki}", lo=1)) for ki, key in enumerate(keys)]))
        s = render(formula, tup, blocks)
        c.note("sentence", s)
        # reference acceptance condition (REF-DECODER semantics, written from the EBNF + property text)
        conds = []
        for a, b in tup:
            conds += [a <= n, b <= n, not_(eq(a, b))]
        flat = [(x, key) for x, props in blocks for key, _ in props]
        for (x1, k1), (x2, k2) in itertools.combinations(flat, 2):
            if k1 == k2:
                conds.append(not_(eq(x1, x2)))
        for x, _ in blocks:
            conds.append(x <= n)
        accept = all_(conds) if conds else True
        outcome, g, exc = "accepted", None, None
        try:
            g = lifted_graph_from_tucan(c, s)
        except P.TucanParserException as e:
            outcome, exc = "rejected", str(e)[:80]
        except Exception as e:
            outcome, exc = "crashed", f"{type(e).__name__}: {e}"[:120]
        c.note("outcome", outcome)
        c.oblige("no-unrelated-error", outcome != "crashed", exc)
        if outcome == "rejected":
            c.oblige("rejected-only-when-the-reference-rejects", not_(accept), exc)
            return
        if outcome == "crashed":
            return
        c.oblige("accepted-only-when-the-reference-accepts", accept)
        if not c.implied(_t(accept)):
            return
        # the denoted graph: formula atoms by increasing atomic number, bond set, attributes
        want_el = sorted([sym for sym, cnt in formula for _ in range(cnt)], key=lambda x: Z_OF[x])
        el, bonds, mass, rad = graph_view(g)
        c.oblige("atoms-of-the-formula-by-atomic-number", el == want_el and sorted(g.nodes) == list(range(n)))
        want_bonds = {tuple(sorted((int_of(a) - 1, int_of(b) - 1))) for a, b in tup}
        c.oblige("exactly-the-listed-bonds", {tuple(sorted(e)) for e in g.edges()} == want_bonds and g.number_of_edges() == len(want_bonds))
        want = {}
        for x, props in blocks:
            for key, v in props:
                want.setdefault(int_of(x) - 1, {})[key] = v
        conds = []
        for k in range(n):
            d = g.nodes[k]
            for key in ("mass", "rad"):
                conds.append(eq(d.get(key), want.get(k, {}).get(key)))
            conds.append(sorted(x for x in d if x not in ("element_symbol", "atomic_number", "partition", "invariant_code", "mass", "rad")) == [])
        c.oblige("exactly-the-listed-attributes", all_(conds) if conds else True)
    return body


def _t(x):
    import z3
    if isinstance(x, SymBool):
        return x.t
    return z3.BoolVal(bool(x))


def int_of(x):
    """The value an index is pinned to on this path (index-mode SymInt) or the int itself."""
    if isinstance(x, SymInt):
        return x.__index__()
    return x

"""Wrap/splice kernels on a symbolic string of symbolic length (E1 on SymStr; DESIGN §3.2 deepening, §12).

The real tucan.io.molfile_writer._add_v30_line and tucan.io.molfile_v3000_reader._concat_lines_with_dash
run on a rope over an uninterpreted character function; `len` is shadowed in the writer module."""
from __future__ import annotations

import z3

from symx.core import all_, not_, SymBool
from symx.symstr import SymStr, fresh_symstr, lift, shadow_len, last_char_is, length_of

_loaded = {}


def T():
    if not _loaded:
        import tucan.io.molfile_writer as W
        import tucan.io.molfile_v3000_reader as R
        _loaded.update(W=W, R=R)
    if not hasattr(_loaded["W"], "_add_v30_line") or not hasattr(_loaded["R"], "_concat_lines_with_dash"):
        from symx.core import Unsupported
        raise Unsupported("the private helpers _add_v30_line / _concat_lines_with_dash are not there: the kernel harness does not apply to this tree")
    return _loaded


def warmup():
    try:
        t = T()
    except BaseException:
        return
    lines = []
    t["W"]._add_v30_line(lines, "x" * 200)
    t["R"]._concat_lines_with_dash(lines + ["M  END"])


def rope(c, x):
    return lift(x) if c.symbolic else x


def le(x, k):
    """length(x) <= k as a condition."""
    n = length_of(x)
    return n <= k


def k_wrap_splice(**p):
    """L1: for every line (length <= max_len, not ending in '-'): every physical line <= 79 characters and
    starts with 'M  V30 '; splice(wrap(line) + [next line]) == ['M  V30 ' + line, next line]."""
    max_len = p["max_len"]

    def body(c):
        t = T()
        if c.symbolic:
            t["W"].len = shadow_len
        try:
            line = fresh_symstr(c, "line", max_len)
            c.assume(not_(last_char_is(line, "-")))
            lines: list = []
            t["W"]._add_v30_line(lines, line)
        finally:
            if c.symbolic and "len" in t["W"].__dict__:
                del t["W"].__dict__["len"]
        phys = [rope(c, x) for x in lines]
        c.note("physical_lines", len(phys))
        c.note("line", line)
        c.oblige("physical-lines-at-most-79", all_([le(x, 79) for x in phys]))
        c.oblige("physical-lines-have-the-prefix", all(bool(x.startswith("M  V30 ")) for x in phys))
        tail = "M  V30 END ATOM"
        out = t["R"]._concat_lines_with_dash(phys + [tail])
        c.oblige("splice-inverts-wrap", len(out) == 2 and bool(out[0] == "M  V30 " + line) and bool(out[1] == tail))
    return body


def k_any_split(**p):
    """A continuation at ANY split point(s): 'M  V30 ' + line[:k] + '-' / 'M  V30 ' + line[k:] reads back
    as the unsplit line; with two split points k1 <= k2 likewise (three physical lines)."""
    max_len = p["max_len"]
    splits = p.get("splits", 1)

    def body(c):
        t = T()
        line = fresh_symstr(c, "line", max_len)
        c.assume(not_(last_char_is(line, "-")))
        n = length_of(line)
        ks = []
        prev = 0
        for i in range(splits):
            k = c.int(f"k{i}", 0)
            c.assume(all_([k >= prev, k <= n]))
            ks.append(k)
            prev = k
        cuts = [0] + ks + [None]
        phys = []
        for i in range(len(cuts) - 1):
            part = line[cuts[i]:cuts[i + 1]] if cuts[i + 1] is not None else line[cuts[i]:]
            phys.append("M  V30 " + part + ("-" if i < len(cuts) - 2 else ""))
        phys.append("M  END")
        c.note("line", line)
        c.note("splits", ks)
        out = t["R"]._concat_lines_with_dash(phys)
        c.oblige("continuation-reads-back", len(out) == 2 and bool(out[0] == "M  V30 " + line) and bool(out[1] == "M  END"))
    return body

"""C15 at scale: witness families, stack-depth growth monitor and scaled replays.

Run in a fresh interpreter:
    python -m harness.scale measure <family> n1,n2,...   -> JSON {n: max stack depth inside the pipeline}
    python -m harness.scale run <family> <n>              -> JSON {ok, error, seconds}; exit 1 when the pipeline raises
Plain ints, pristine modules, default recursion limit."""
from __future__ import annotations

import json
import sys
import time


import os
FIXED_POINT = os.environ.get("VERIF_SCALE_FIXED_POINT") == "1"


def family(name, n):
    """(elements, bonds) of the size-n member."""
    C = "C"
    if name == "chain":
        return [C] * n, [(i, i + 1) for i in range(n - 1)]
    if name == "ring":
        return [C] * n, [(i, (i + 1) % n) for i in range(n)] if n >= 3 else [(i, i + 1) for i in range(n - 1)]
    if name == "comb":            # backbone of n//2 atoms, one pendant each
        m = max(n // 2, 1)
        return [C] * (2 * m), [(i, i + 1) for i in range(m - 1)] + [(i, m + i) for i in range(m)]
    if name == "ladder":
        m = max(n // 2, 1)
        return [C] * (2 * m), [(i, i + 1) for i in range(m - 1)] + [(m + i, m + i + 1) for i in range(m - 1)] + [(i, m + i) for i in range(m)]
    if name == "peptide":         # -(N-C-C(=O))- backbone
        k = max(n // 4, 1)
        el, bonds = [], []
        for r in range(k):
            b = 4 * r
            el += ["N", "C", "C", "O"]
            bonds += [(b, b + 1), (b + 1, b + 2), (b + 2, b + 3)]
            if r:
                bonds.append((b - 2, b))
        return el, bonds
    if name == "star":
        return [C] * n, [(0, i) for i in range(1, n)]
    if name == "complete":
        return [C] * n, [(a, b) for a in range(n) for b in range(a + 1, n)]
    if name == "isolated":
        return [C] * n, []
    if name == "pairs":           # n/2 two-atom components
        m = max(n // 2, 1)
        return [C, "O"] * m, [(2 * i, 2 * i + 1) for i in range(m)]
    if name == "labelled-chain":  # chain with a mass label at one end and a radical in the middle
        return [C] * n, [(i, i + 1) for i in range(n - 1)]
    raise SystemExit(f"unknown family {name}")


Z = {"C": 6, "N": 7, "O": 8}


def build(name, n):
    from tucan.graph_utils import graph_from_molecule
    el, bonds = family(name, n)
    atoms = {i: {"element_symbol": e, "atomic_number": Z[e], "partition": 0} for i, e in enumerate(el)}
    if name == "labelled-chain":
        atoms[0]["mass"] = 13
        atoms[len(el) // 2]["rad"] = 2
    return graph_from_molecule(atoms, {b: {"bond_type": 1} for b in bonds})


def pipeline(g):
    from tucan.canonicalization import canonicalize_molecule
    from tucan.serialization import serialize_molecule
    from tucan.parser.parser import graph_from_tucan
    s = serialize_molecule(canonicalize_molecule(g))
    g2 = graph_from_tucan(s)
    assert g2.number_of_nodes() == g.number_of_nodes() and g2.number_of_edges() == g.number_of_edges()
    if FIXED_POINT:
        s2 = serialize_molecule(canonicalize_molecule(g2))
        assert s2 == s, "the parsed graph does not reproduce the string"
    return s


def measure(name, sizes):
    out = {}
    pipeline(build(name, 4))         # warm-up (lazy imports, ANTLR DFA)
    for n in sizes:
        g = build(name, n)
        depth = [0, 0]

        def prof(frame, event, arg):
            if event == "call":
                depth[0] += 1
                if depth[0] > depth[1]:
                    depth[1] = depth[0]
            elif event == "return":
                depth[0] -= 1
        sys.setprofile(prof)
        try:
            pipeline(g)
        finally:
            sys.setprofile(None)
        out[g.number_of_nodes()] = depth[1]
    return out


def main(argv):
    cmd, name = argv[1], argv[2]
    if cmd == "measure":
        sizes = [int(x) for x in argv[3].split(",")]
        print(json.dumps(measure(name, sizes)))
        return 0
    if cmd == "run":
        n = int(argv[3])
        try:
            # a run that needs more than 2 GiB of address space for a few thousand atoms does not "complete"
            import resource
            lim = 2 * 1024 ** 3
            resource.setrlimit(resource.RLIMIT_AS, (lim, lim))
        except Exception:
            pass
        t0 = time.time()
        try:
            g = build(name, n)
            s = pipeline(g)
            print(json.dumps({"ok": True, "family": name, "n": g.number_of_nodes(), "seconds": round(time.time() - t0, 2), "tucan_len": len(s)}))
            return 0
        except BaseException as e:
            print(json.dumps({"ok": False, "family": name, "n": n, "seconds": round(time.time() - t0, 2), "error": f"{type(e).__name__}: {str(e)[:200]}"}))
            return 1
    return 2


if __name__ == "__main__":
    import os
    repo = os.environ.get("VERIF_REPO", "/repo")
    if repo in sys.path:
        sys.path.remove(repo)
    sys.path.insert(0, repo)
    sys.exit(main(sys.argv))

"""Graph-level harnesses around the real pipeline

    graph_from_molecule -> canonicalize_molecule -> serialize_molecule

run under symx on the abstract-molecule domain of harness/domain.py."""
from __future__ import annotations

import copy

from symx.core import all_, any_, eq, not_, distinct, SymInt, SymBool, Cut
from symx.strings import str_eq
from harness.domain import Mol, build_mol, choose_relisting, pairs, Z

_loaded = {}


def T():
    """The code under test, imported from /repo (sys.path is set by the driver)."""
    if not _loaded:
        from tucan.graph_utils import graph_from_molecule, permute_molecule
        from tucan.canonicalization import canonicalize_molecule
        from tucan.serialization import serialize_molecule
        import tucan.graph_utils as gu
        _loaded.update(graph_from_molecule=graph_from_molecule, canonicalize_molecule=canonicalize_molecule,
                       serialize_molecule=serialize_molecule, permute_molecule=permute_molecule, gu=gu)
    return _loaded


def warmup():
    # networkx compiles its argmap decorators lazily with exec: run once concretely
    t = T()
    g = t["graph_from_molecule"]({0: {"element_symbol": "C", "atomic_number": 6, "partition": 0},
                                  1: {"element_symbol": "C", "atomic_number": 6, "partition": 0}}, {(0, 1): {}})
    t["serialize_molecule"](t["canonicalize_molecule"](g))
    t["permute_molecule"](g, 0.5)


def unpin(pinned):
    return None if pinned is None else {(a, b): bool(v) for a, b, v in pinned}


def graph_of(listing):
    atoms, bonds = listing
    return T()["graph_from_molecule"](atoms, bonds)


def canon(g):
    return T()["canonicalize_molecule"](g)


def ser(g):
    return T()["serialize_molecule"](g)


def dom(c, p):
    """Build the abstract molecule for job params p."""
    return build_mol(c, p["n"], alphabet=tuple(p.get("alphabet", ("C",))), K_m=p.get("K_m", 2), K_r=p.get("K_r", 1),
                     pinned=unpin(p.get("pinned")), mass_lo=p.get("mass_lo", 1), rad_lo=p.get("rad_lo", 1),
                     fixed_bonds=p.get("bonds"), label_atoms=p.get("label_atoms"))


def relist(c, mol, p):
    mode = p.get("relist", "atoms")
    if mode == "perm":
        order = list(p["perm"])
        return order, None, ()
    return choose_relisting(c, mol, atom_moves=(mode in ("atoms", "both")), bond_moves=(mode in ("bonds", "both")))


def shape_jobs(n, pin, base, name):
    """Split the 2^(n(n-1)/2) labelled graphs on n atoms into 2^pin jobs by pinning edge bits."""
    ps = pairs(n)
    pin = min(pin, len(ps))
    out = []
    for mask in range(1 << pin):
        pinned = [[ps[i][0], ps[i][1], bool(mask >> i & 1)] for i in range(pin)]
        out.append(dict(base, params=dict(base["params"], n=n, pinned=pinned), name=f"{name}/n{n}/pin{mask:0{max(pin,1)}b}"))
    return out


# ---------------------------------------------------------------------------
# C01 — string invariance under relisting

def c01(**p):
    def body(c):
        mol = dom(c, p)
        order, bo, flip = relist(c, mol, p)
        s1 = ser(canon(graph_of(mol.listing())))
        s2 = ser(canon(graph_of(mol.listing(order, bo, flip))))
        c.note("mol", mol.describe())
        c.note("relisting", [order, bo, list(flip)])
        c.note("tucan", s1)
        c.note("tucan_relisted", s2)
        c.oblige("strings-equal", str_eq(s1, s2))
    return body


# ---------------------------------------------------------------------------
# C04 / C13 — canonical labelled graph and partition classes

def node_table(g):
    return {k: (d.get("element_symbol"), d.get("mass"), d.get("rad"), d.get("partition")) for k, d in g.nodes(data=True)}


def edge_set(g):
    return sorted(tuple(sorted(e)) for e in g.edges())


def c04(**p):
    def body(c):
        mol = dom(c, p)
        order, bo, flip = relist(c, mol, p)
        g1 = canon(graph_of(mol.listing()))
        g2 = canon(graph_of(mol.listing(order, bo, flip)))
        n = mol.n
        c.note("mol", mol.describe())
        c.note("relisting", [order, bo, list(flip)])
        t1, t2 = node_table(g1), node_table(g2)
        c.note("canon1", [list(t1.get(k, ())) for k in range(n)])
        c.note("canon2", [list(t2.get(k, ())) for k in range(n)])
        c.note("edges1", edge_set(g1))
        c.note("edges2", edge_set(g2))
        c.oblige("nodes-are-0..n-1", sorted(g1.nodes) == list(range(n)) and sorted(g2.nodes) == list(range(n)))
        conds = []
        for k in range(n):
            a, b = t1.get(k), t2.get(k)
            if a is None or b is None:
                conds.append(False)
                continue
            conds.append(all_([a[0] == b[0], eq(a[1], b[1]), eq(a[2], b[2]), a[3] == b[3]]))
        c.oblige("node-maps-equal", all_(conds))
        c.oblige("edge-sets-equal", edge_set(g1) == edge_set(g2))
    return body

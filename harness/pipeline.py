"""Graph-level harnesses around the real pipeline

    graph_from_molecule -> canonicalize_molecule -> serialize_molecule

run under symx on the abstract-molecule domain of harness/domain.py."""
from __future__ import annotations

import copy

from symx.core import all_, any_, eq, not_, distinct, SymInt, SymBool, Cut
from symx.strings import str_eq
from harness.domain import Mol, build_mol, choose_relisting, pairs, Z

_loaded = {}


def T():
    """The code under test, imported from /repo (sys.path is set by the driver)."""
    if not _loaded:
        from tucan.graph_utils import graph_from_molecule, permute_molecule
        from tucan.canonicalization import canonicalize_molecule
        from tucan.serialization import serialize_molecule
        import tucan.graph_utils as gu
        _loaded.update(graph_from_molecule=graph_from_molecule, canonicalize_molecule=canonicalize_molecule,
                       serialize_molecule=serialize_molecule, permute_molecule=permute_molecule, gu=gu)
    return _loaded


def warmup():
    # networkx compiles its argmap decorators lazily with exec: run once concretely
    t = T()
    g = t["graph_from_molecule"]({0: {"element_symbol": "C", "atomic_number": 6, "partition": 0},
                                  1: {"element_symbol": "C", "atomic_number": 6, "partition": 0}}, {(0, 1): {}})
    t["serialize_molecule"](t["canonicalize_molecule"](g))
    t["permute_molecule"](g, 0.5)


def unpin(pinned):
    return None if pinned is None else {(a, b): bool(v) for a, b, v in pinned}


def graph_of(listing):
    atoms, bonds = listing
    return T()["graph_from_molecule"](atoms, bonds)


def canon(g):
    return T()["canonicalize_molecule"](g)


def ser(g):
    return T()["serialize_molecule"](g)


def dom(c, p):
    """Build the abstract molecule for job params p."""
    return build_mol(c, p["n"], alphabet=tuple(p.get("alphabet", ("C",))), K_m=p.get("K_m", 2), K_r=p.get("K_r", 1),
                     pinned=unpin(p.get("pinned")), mass_lo=p.get("mass_lo", 1), rad_lo=p.get("rad_lo", 1),
                     fixed_bonds=p.get("bonds"), label_atoms=p.get("label_atoms"), rad_hi=p.get("rad_hi"), fixed_elements=p.get("elements"))


def relist(c, mol, p):
    mode = p.get("relist", "atoms")
    if mode == "perm":
        order = list(p["perm"])
        return order, None, ()
    return choose_relisting(c, mol, atom_moves=(mode in ("atoms", "both")), bond_moves=(mode in ("bonds", "both")))


def scramble(c, g, name="lab"):
    """Exchange two solver-chosen adjacent labels WITHOUT changing the node iteration order
    (nx.relabel_nodes keeps the order): a description whose numbering differs from its listing."""
    import networkx as nx
    n = g.number_of_nodes()
    if n < 2:
        return g
    t = c.choice(name, n - 1)
    return nx.relabel_nodes(g, {t: t + 1, t + 1: t}, copy=True)


def second_graph(c, mol, p):
    """The second description of the molecule: (graph, note)."""
    mode = p.get("relist", "atoms")
    if mode == "labels":
        g = scramble(c, graph_of(mol.listing()))
        return g, ["labels", list(g.nodes)]
    if mode == "keys":
        # same listing order, but the declared indices of two solver-chosen adjacent positions are exchanged
        numbering = list(range(mol.n))
        if mol.n > 1:
            t = c.choice("kt", mol.n - 1)
            numbering[t], numbering[t + 1] = numbering[t + 1], numbering[t]
        return graph_of(mol.listing(numbering=numbering)), ["keys", numbering]
    if mode == "recanon-scrambled":
        # canonicalize, renumber the result (labels != listing order), use that as the second description
        return scramble(c, canon(graph_of(mol.listing()))), ["recanon-scrambled"]
    if mode == "recanon-edited":
        # history: the molecule with one more atom (a pendant atom on a solver-chosen atom) was canonicalized, then that
        # atom was deleted from the canonical graph. The edited graph is a description of the molecule that still
        # carries the earlier run's partition values (finer than the molecule's own) and non-contiguous labels.
        atoms, bonds = mol.listing()
        t = c.choice("pend", mol.n)
        atoms[mol.n] = {"element_symbol": "Cs", "atomic_number": 55, "partition": 0, "pendant": True}
        bonds[(t, mol.n)] = {}
        gc = canon(graph_of((atoms, bonds)))
        for k in [k for k, d in gc.nodes(data=True) if d.get("pendant")]:
            gc.remove_node(k)
        return gc, ["recanon-edited", t]
    if mode == "recanon":
        # the canonical graph itself is a description of the molecule (its listing order differs from its numbering)
        return canon(graph_of(mol.listing())), ["recanon"]
    order, bo, flip = relist(c, mol, p)
    return graph_of(mol.listing(order, bo, flip)), [order, bo, list(flip)]


def shape_jobs(n, pin, base, name):
    """Split the 2^(n(n-1)/2) labelled graphs on n atoms into 2^pin jobs by pinning edge bits."""
    ps = pairs(n)
    pin = min(pin, len(ps))
    out = []
    for mask in range(1 << pin):
        pinned = [[ps[i][0], ps[i][1], bool(mask >> i & 1)] for i in range(pin)]
        out.append(dict(base, params=dict(base["params"], n=n, pinned=pinned), name=f"{name}/n{n}/pin{mask:0{max(pin,1)}b}"))
    return out


# ---------------------------------------------------------------------------
# C01 — string invariance under relisting

def c01(**p):
    def body(c):
        mol = dom(c, p)
        g2, how = second_graph(c, mol, p)
        s1 = ser(canon(graph_of(mol.listing())))
        s2 = ser(canon(g2))
        c.note("mol", mol.describe())
        c.note("relisting", how)
        c.note("tucan", s1)
        c.note("tucan_relisted", s2)
        c.oblige("strings-equal", str_eq(s1, s2))
    return body


# ---------------------------------------------------------------------------
# C04 / C13 — canonical labelled graph and partition classes

def node_table(g):
    return {k: (d.get("element_symbol"), d.get("mass"), d.get("rad"), d.get("partition")) for k, d in g.nodes(data=True)}


def edge_set(g):
    return sorted(tuple(sorted(e)) for e in g.edges())


def c04(**p):
    def body(c):
        mol = dom(c, p)
        gb, how = second_graph(c, mol, p)
        g1 = canon(graph_of(mol.listing()))
        g2 = canon(gb)
        n = mol.n
        c.note("mol", mol.describe())
        c.note("relisting", how)
        t1, t2 = node_table(g1), node_table(g2)
        c.note("canon1", [list(t1.get(k, ())) for k in range(n)])
        c.note("canon2", [list(t2.get(k, ())) for k in range(n)])
        c.note("edges1", edge_set(g1))
        c.note("edges2", edge_set(g2))
        c.oblige("nodes-are-0..n-1", sorted(g1.nodes) == list(range(n)) and sorted(g2.nodes) == list(range(n)))
        conds = []
        for k in range(n):
            a, b = t1.get(k), t2.get(k)
            if a is None or b is None:
                conds.append(False)
                continue
            conds.append(all_([a[0] == b[0], eq(a[1], b[1]), eq(a[2], b[2]), a[3] == b[3]]))
        c.oblige("node-maps-equal", all_(conds))
        c.oblige("edge-sets-equal", edge_set(g1) == edge_set(g2))
    return body


# ---------------------------------------------------------------------------
# shared: reference decoding and isomorphism conditions

def ref_decode(s):
    from ref.tucan_ref import decode
    from symx.strings import term_of_char, ge, has_ph
    if has_ph(s):
        return decode(s, term_of_char, ge)
    return decode(s)


def label_default(c, v):
    """The colour a missing label stands for (the invariant code's default 0)."""
    return 0 if v is None else v


def iso_condition(n, el1, bonds1, mass1, rad1, el2, bonds2, mass2, rad2):
    """Condition: graph 1 is isomorphic to graph 2 with element, mass and radical
    preserved.  Skeleton isomorphisms (element + edges, concrete) are enumerated by
    REF-ISO; label equality along each is left to the solver.  A missing label and an
    explicit 0 are the same colour (as in the invariant code)."""
    from ref.iso import isomorphisms
    if len(el1) != n or len(el2) != n:
        return False, 0
    phis = isomorphisms(n, el1, bonds1, el2, bonds2)
    alts = []
    for phi in phis:
        alts.append(all_([all_([eq(_z(mass1[a]), _z(mass2[phi[a]])), eq(_z(rad1[a]), _z(rad2[phi[a]]))]) for a in range(n)]))
    return (any_(alts) if alts else False), len(phis)


def _z(v):
    return 0 if v is None else v


# ---------------------------------------------------------------------------
# C02 — different molecules never share a string

def c02(**p):
    def body(c):
        mol = dom(c, p)
        s = ser(canon(graph_of(mol.listing())))
        c.note("mol", mol.describe())
        c.note("tucan", s)
        n = mol.n
        try:
            el, bonds, attrs, conds = ref_decode(s)
        except Exception as e:
            c.oblige("reference-decoder-accepts", False, repr(e))
            return
        mass2 = [attrs.get(i, {}).get("mass") for i in range(len(el))]
        rad2 = [attrs.get(i, {}).get("rad") for i in range(len(el))]
        cond, nphi = iso_condition(n, el, bonds, mass2, rad2, mol.elements, list(mol.bonds), mol.mass, mol.rad)
        c.note("skeleton_isomorphisms", nphi)
        c.oblige("decoded-graph-isomorphic-to-molecule", cond)
        c.oblige("numerals-positive", all_(conds) if conds else True)
    return body


def c02pair(**p):
    """Near-miss pairs inside one path: M and M'' differ by one bond toggle or by one
    label moved to another atom.  Obligation: strings equal => isomorphic."""
    def body(c):
        mol = dom(c, p)
        n = mol.n
        ps = pairs(n)
        kind = c.choice("nm_kind", 2) if n > 1 else 1
        bonds2 = dict(mol.bonds)
        mass2, rad2 = list(mol.mass), list(mol.rad)
        if kind == 0:
            k = c.choice("nm_pair", len(ps))
            if ps[k] in bonds2:
                del bonds2[ps[k]]
            else:
                bonds2[ps[k]] = {}
            c.note("near_miss", ["toggle", list(ps[k])])
        else:
            a = c.choice("nm_from", n)
            b = c.choice("nm_to", n)
            c.assume(a != b)
            which = c.choice("nm_which", 2)
            lab = mass2 if which == 0 else rad2
            if lab[a] is None or lab[b] is not None:
                from symx.core import Infeasible
                c.assume(False)
            lab[b], lab[a] = lab[a], None
            c.note("near_miss", ["move", "mass" if which == 0 else "rad", a, b])
        mol2 = Mol(mol.elements, mass2, rad2, bonds2)
        s1 = ser(canon(graph_of(mol.listing())))
        s2 = ser(canon(graph_of(mol2.listing())))
        c.note("mol", mol.describe())
        c.note("tucan", s1)
        c.note("tucan_near_miss", s2)
        iso, nphi = iso_condition(n, mol.elements, list(mol.bonds), mol.mass, mol.rad,
                                  mol2.elements, list(mol2.bonds), mol2.mass, mol2.rad)
        from symx.core import implies
        c.oblige("equal-strings-imply-isomorphic", implies(str_eq(s1, s2), iso))
    return body


# ---------------------------------------------------------------------------
# C05 — grammar and canonical layout of every emitted string

def c05(**p):
    def body(c):
        from ref.tucan_ref import layout_problems
        from symx.strings import term_of_char, ge, has_ph
        mol = dom(c, p)
        s = ser(canon(graph_of(mol.listing())))
        c.note("mol", mol.describe())
        c.note("tucan", s)
        problems, conds = layout_problems(s, mol.elements, term_of_char, ge) if has_ph(s) else layout_problems(s, mol.elements)
        c.oblige("grammar-and-layout", not problems, problems[:3])
        c.oblige("values-strictly-positive", all_(conds) if conds else True)
        # one attribute block per labelled atom, holding exactly that atom's labels
        try:
            el, bonds, attrs, _ = ref_decode(s)
        except Exception as e:
            c.oblige("reference-decoder-accepts", False, repr(e))
            return
        labelled = [a for a in range(mol.n) if mol.mass[a] is not None or mol.rad[a] is not None]
        c.oblige("one-block-per-labelled-atom", len(attrs) == len(labelled), [sorted(attrs), labelled])
        c.oblige("bond-count", len(bonds) == len(mol.bonds))
        mass2 = [attrs.get(i, {}).get("mass") for i in range(len(el))]
        rad2 = [attrs.get(i, {}).get("rad") for i in range(len(el))]
        # labels sit on atoms of the right element with the atom's own values, strictly (absent == absent)
        from ref.iso import isomorphisms
        phis = isomorphisms(mol.n, el, bonds, mol.elements, list(mol.bonds)) if len(el) == mol.n else []
        alts = [all_([all_([eq(mass2[a], mol.mass[phi[a]]), eq(rad2[a], mol.rad[phi[a]])]) for a in range(mol.n)]) for phi in phis]
        c.oblige("blocks-carry-the-atoms-labels", any_(alts) if alts else False)
    return body


# ---------------------------------------------------------------------------
# C12 — canonicalization only renames; nothing is lost, added or mutated

SCRATCH = ("explored",)
BOOKKEEPING = ("partition", "explored")


def snapshot(g):
    return ([(k, dict(d)) for k, d in g.nodes(data=True)], [(u, v, dict(d)) for u, v, d in g.edges(data=True)])


def same_snapshot(s1, s2, ignore=(), allow_extra=False, only=None):
    """allow_extra: keys that appear only in the second snapshot are tolerated (scratch/bookkeeping a
    refactoring may add); every key of the first snapshot must still be there with an equal value."""
    (n1, e1), (n2, e2) = s1, s2
    if [k for k, _ in n1] != [k for k, _ in n2]:
        return False
    if [(u, v) for u, v, _ in e1] != [(u, v) for u, v, _ in e2]:
        return False
    conds = []
    for (_, d1), (_, d2) in list(zip(n1, n2)) + [(("", a[2]), ("", b[2])) for a, b in zip(e1, e2)]:
        k1 = [k for k in d1 if k not in ignore and (only is None or k in only)]
        k2 = [k for k in d2 if k not in ignore and (only is None or k in only)]
        if allow_extra:
            if any(k not in d2 for k in k1):
                return False
        elif sorted(k1) != sorted(k2):
            return False
        for k in k1:
            conds.append(attr_eq(d1[k], d2[k]))
    return all_(conds) if conds else True


def attr_eq(a, b):
    if a is b:
        return True
    if isinstance(a, tuple) and isinstance(b, tuple):
        if len(a) != len(b):
            return False
        return all_([attr_eq(x, y) for x, y in zip(a, b)])
    return eq(a, b)


def rich_mol(c, p):
    """Abstract molecule with a unique tag, symbolic charge, concrete coordinates on
    every atom and a symbolic bond type on every bond."""
    mol = dom(c, p)
    for a in range(mol.n):
        mol.extra[a] = {"tag": 100 + a, "chg": c.int(f"chg{a}", -15, 15),
                        "x_coord": 1.5 * a, "y_coord": -0.25 * a, "z_coord": 0.0}
    blist = sorted(mol.bonds)
    # one solver-chosen bond without any attribute (as graph_from_tucan builds them) and one with an extra attribute
    bare = c.choice("bare_bond", len(blist) + 1) if blist and p.get("bond_variants", False) else len(blist)
    extra = c.choice("extra_attr_bond", len(blist) + 1) if blist and p.get("bond_variants", False) else len(blist)
    for k, (a, b) in enumerate(blist):
        if k == bare:
            mol.bonds[(a, b)] = {}
            continue
        mol.bonds[(a, b)] = {"bond_type": c.int(f"bt{a}_{b}")}
        if k == extra:
            mol.bonds[(a, b)]["stereo"] = 3
    return mol


def c12(**p):
    def body(c):
        mol = rich_mol(c, p)
        n = mol.n
        g = graph_of(mol.listing())
        if p.get("scramble"):
            g = scramble(c, g)
        if p.get("offset_labels"):
            import networkx as nx
            g = nx.relabel_nodes(g, {k: 2 * k + 3 for k in g.nodes}, copy=True)      # labels that are not 0..n-1 (e.g. a subgraph)
        before = snapshot(g)
        g2 = canon(g)
        c.note("mol", mol.describe())
        c.oblige("input-unchanged-by-canonicalize", same_snapshot(before, snapshot(g), ignore=SCRATCH))
        c.oblige("nodes-are-0..n-1", sorted(g2.nodes) == list(range(n)))
        tags = {d.get("tag"): k for k, d in g2.nodes(data=True)}
        c.oblige("renaming-is-a-bijection", sorted(tags) == [100 + a for a in range(n)] and sorted(tags.values()) == list(range(n)))
        by_tag_in = {d["tag"]: d for _, d in g.nodes(data=True)}
        conds = []
        for k, d in g2.nodes(data=True):
            src = by_tag_in.get(d.get("tag"), {})
            keys = [x for x in src if x not in BOOKKEEPING]
            conds.append(sorted(keys) == sorted(x for x in d if x not in BOOKKEEPING))
            for x in keys:
                conds.append(attr_eq(src[x], d.get(x)))
        c.oblige("atom-attributes-carried", all_(conds))
        tag_of_in = {k: d["tag"] for k, d in g.nodes(data=True)}
        tag_of_out = {k: d.get("tag") for k, d in g2.nodes(data=True)}
        bt_in = {frozenset((tag_of_in[u], tag_of_in[v])): d for u, v, d in g.edges(data=True)}
        bt_out = {frozenset((tag_of_out[u], tag_of_out[v])): d for u, v, d in g2.edges(data=True)}
        ok = set(bt_in) == set(bt_out) and g2.number_of_edges() == len(mol.bonds)
        c.oblige("bonds-keep-endpoints", ok)
        if ok:
            c.oblige("bond-attributes-carried", all_([all_([sorted(bt_in[k]) == sorted(bt_out[k])] + [attr_eq(bt_in[k][x], bt_out[k][x]) for x in bt_in[k]]) for k in bt_in]) if bt_in else True)
        # repeated calls on the same objects
        snap2 = snapshot(g2)
        s1 = ser(g2)
        c.note("tucan", s1)
        c.oblige("canonical-graph-unchanged-by-serialize", same_snapshot(snap2, snapshot(g2), ignore=SCRATCH, allow_extra=True))
        s2 = ser(g2)
        s3 = ser(g2)
        c.oblige("serialize-repeatable", all_([str_eq(s1, s2), str_eq(s1, s3)]))
        g3 = canon(g)
        # g2 has been serialized in between (it may carry scratch flags of any name): compare the attributes the
        # input graph has, plus the partition class
        vocab = {k for _, d in g.nodes(data=True) for k in d} | {k for _, _, d in g.edges(data=True) for k in d} | {"partition"}
        c.oblige("canonicalize-repeatable", same_snapshot(snapshot(g2), snapshot(g3), only=vocab))
        c.oblige("input-unchanged-by-repeat", same_snapshot(before, snapshot(g), ignore=SCRATCH))
        s4 = ser(canon(g))
        c.oblige("pipeline-repeatable", str_eq(s1, s4))
    return body


# ---------------------------------------------------------------------------
# C13 — partition classes: label-independent, equitable, symmetry-respecting

def tagged(mol):
    for a in range(mol.n):
        mol.extra[a] = dict(mol.extra[a], tag=100 + a)
    return mol


def classes_by_tag(g):
    return {d["tag"] - 100: d.get("partition") for _, d in g.nodes(data=True)}


def c13(**p):
    def body(c):
        from ref.iso import automorphisms
        mol = tagged(dom(c, p))
        n = mol.n
        gb, how = second_graph(c, mol, p)
        g1 = canon(graph_of(mol.listing()))
        g2 = canon(gb)
        cls1, cls2 = classes_by_tag(g1), classes_by_tag(g2)
        c.note("mol", mol.describe())
        c.note("relisting", how)
        c.note("classes", [cls1.get(a) for a in range(n)])
        c.note("classes_relisted", [cls2.get(a) for a in range(n)])
        c.oblige("classes-label-independent", cls1 == cls2)
        # equitable: same class => same invariant code and same multiset of neighbour classes
        nb = {a: [] for a in range(n)}
        for (a, b) in mol.bonds:
            nb[a].append(b); nb[b].append(a)
        conds = []
        for a in range(n):
            for b in range(a + 1, n):
                if cls1[a] == cls1[b]:
                    conds.append(mol.elements[a] == mol.elements[b])
                    conds.append(eq(_z(mol.mass[a]), _z(mol.mass[b])))
                    conds.append(eq(_z(mol.rad[a]), _z(mol.rad[b])))
                    conds.append(sorted(cls1[x] for x in nb[a]) == sorted(cls1[x] for x in nb[b]))
        c.oblige("classes-equitable", all_(conds) if conds else True)
        # symmetry: an automorphism of the skeleton that separates two classes cannot preserve all colours
        autos = automorphisms(n, mol.elements, list(mol.bonds))
        c.note("skeleton_automorphisms", len(autos))
        bad = []
        for al in autos:
            if any(cls1[a] != cls1[al[a]] for a in range(n)):
                bad.append(not_(all_([all_([eq(_z(mol.mass[a]), _z(mol.mass[al[a]])), eq(_z(mol.rad[a]), _z(mol.rad[al[a]]))]) for a in range(n)])))
        c.oblige("symmetric-atoms-share-a-class", all_(bad) if bad else True)
    return body


# ---------------------------------------------------------------------------
# C15 (small sizes) — the pipeline returns normally for every molecule of the strata

def c15(**p):
    def body(c):
        mol = dom(c, p)
        c.note("mol", mol.describe())
        try:
            g = graph_of(mol.listing())
            gc = canon(g)
            s = ser(gc)
        except Exception as e:
            c.oblige("canonicalize-and-serialize-return-normally", False, f"{type(e).__name__}: {e}")
            return
        c.note("tucan", s)
        c.oblige("canonicalize-and-serialize-return-normally", True)
        # the same objects again, and objects derived from them (completion must not depend on the call history)
        try:
            ser(gc)
            ser(canon(g))
            ser(canon(gc))
        except Exception as e:
            c.oblige("repeated-calls-return-normally", False, f"{type(e).__name__}: {e}")
            return
        c.oblige("repeated-calls-return-normally", True)
    return body


# ---------------------------------------------------------------------------
# C16 — permute_molecule returns a faithful relabelled copy

class ShuffleStub:
    """Stands in for the `random` module inside tucan.graph_utils: shuffle applies a
    permutation chosen by the solver (all n! outcomes are explored), seed records its
    argument.  Every other attribute access is an error (the helper must use nothing else)."""

    def __init__(self, c, max_shuffles):
        self.c = c
        self.calls = []
        self.shuffles = 0
        self.max_shuffles = max_shuffles
        self.stream = None          # which seed the generator state currently derives from (None: the caller's unknown state)
        self.unseeded_draws = 0

    def seed(self, a=None, *rest):
        self.calls.append(("seed", a))
        self.stream = ("seed", a)

    def getstate(self):
        return ("state", self.stream)

    def setstate(self, st):
        self.stream = st[1]

    def shuffle(self, x):
        self.shuffles += 1
        if self.shuffles > self.max_shuffles:
            raise Cut(f"more than {self.max_shuffles} shuffles in the retry loop")
        self.calls.append(("shuffle", len(x)))
        if self.stream is None:
            self.unseeded_draws += 1
        items = list(x)
        out = []
        k = self.shuffles
        for i in range(len(items), 1, -1):
            out.append(items.pop(self.c.choice(f"sh{k}_{i}", i)))
        out += items
        x[:] = out

    def sample(self, population, k):
        if k != len(population):
            from symx.core import Unsupported
            raise Unsupported("random.sample with k != len(population)")
        x = list(population)
        self.shuffle(x)
        return x

    def Random(self, seed=None):
        """random.Random(seed): an instance sharing this stub's bookkeeping (a legitimate way to seed)."""
        self.calls.append(("seed", seed))
        self.stream = ("seed", seed)
        return self

    def __getattr__(self, name):
        from symx.core import Unsupported
        raise Unsupported(f"permute_molecule uses random.{name}, which the shuffle stub does not model")


def c16(**p):
    def body(c):
        import networkx as nx
        t = T()
        mol = rich_mol(c, p)
        n = mol.n
        g = graph_of(mol.listing())
        if p.get("scramble"):
            g = scramble(c, g)
        before = snapshot(g)
        seed = p.get("seed", 0.25)
        stub = ShuffleStub(c, p.get("max_shuffles", 3))
        gu = t["gu"]
        real_random = gu.random
        gu.random = stub
        try:
            gp = t["permute_molecule"](g, seed)
        finally:
            gu.random = real_random
        c.note("mol", mol.describe())
        c.note("shuffles", stub.shuffles)
        c.note("perm", [gp.nodes[k].get("tag") for k in gp.nodes])
        c.oblige("seeded-before-first-shuffle", len(stub.calls) >= 2 and stub.calls[0] == ("seed", seed) and all(x[0] == "shuffle" for x in stub.calls[1:]))
        c.oblige("every-shuffle-draws-from-the-seeded-stream", stub.unseeded_draws == 0, stub.unseeded_draws)
        c.oblige("argument-unchanged", same_snapshot(before, snapshot(g)))
        c.oblige("same-label-set", sorted(gp.nodes) == sorted(g.nodes))
        c.oblige("atoms-listed-in-label-order", list(gp.nodes) == sorted(gp.nodes))
        tag_in = {d["tag"]: (k, d) for k, d in g.nodes(data=True)}
        tag_out = {d.get("tag"): (k, d) for k, d in gp.nodes(data=True)}
        c.oblige("tag-map-is-a-bijection", sorted(tag_in) == sorted(tag_out))
        if sorted(tag_in) != sorted(tag_out):
            return
        c.oblige("atom-attributes-carried", all_([same_dict(tag_in[x][1], tag_out[x][1]) for x in tag_in]))
        e_in = {frozenset((g.nodes[u]["tag"], g.nodes[v]["tag"])): d for u, v, d in g.edges(data=True)}
        e_out = {frozenset((gp.nodes[u]["tag"], gp.nodes[v]["tag"])): d for u, v, d in gp.edges(data=True)}
        c.oblige("is-an-isomorphism", set(e_in) == set(e_out) and gp.number_of_edges() == g.number_of_edges())
        if set(e_in) == set(e_out):
            c.oblige("bond-attributes-carried", all_([same_dict(e_in[k], e_out[k]) for k in e_in]) if e_in else True)
        m = g.number_of_edges()
        if m >= 2 and m != n * (n - 1) // 2:
            c.oblige("edge-set-differs", set(map(frozenset, g.edges)) != set(map(frozenset, gp.edges)))
        # concrete leg with the REAL random module: the same seed must give the same result whatever state the
        # caller's global generator is in (16 seeds; the retry loop is entered for some of them on symmetric graphs)
        if p.get("real_rng", True):
            import random as _r
            same = True
            for i in range(16):
                sd = i / 16
                _r.seed(12345)
                a = t["permute_molecule"](g, sd)
                _r.seed(999)
                _r.random()
                b = t["permute_molecule"](g, sd)
                if [d.get("tag") for _, d in a.nodes(data=True)] != [d.get("tag") for _, d in b.nodes(data=True)] or set(map(frozenset, a.edges)) != set(map(frozenset, b.edges)):
                    same = False
                    c.note("seed_with_different_results", sd)
                    break
            c.oblige("same-seed-same-result-with-the-real-generator", same)
            # history leg: the SAME graph object is edited after it has been an argument (with this seed) and is
            # passed again; the result must carry the argument's current attributes and bonds (a result
            # remembered per object/seed would be stale). The argument is restored afterwards.
            k0 = list(g.nodes)[-1]
            g.nodes[k0]["probe"] = 41
            dropped = None
            if g.number_of_edges():
                u, v, d = list(g.edges(data=True))[0]
                dropped = (u, v, dict(d))
                g.remove_edge(u, v)
            try:
                b2 = t["permute_molecule"](g, 4 / 16)
                carried = [d.get("tag") for _, d in b2.nodes(data=True) if d.get("probe") == 41] == [g.nodes[k0]["tag"]]
                c.oblige("edited-argument-is-permuted-afresh", carried and b2.number_of_edges() == g.number_of_edges(), [carried, b2.number_of_edges(), g.number_of_edges()])
            finally:
                del g.nodes[k0]["probe"]
                if dropped:
                    g.add_edge(dropped[0], dropped[1], **dropped[2])
    return body


def same_dict(d1, d2):
    if sorted(d1) != sorted(d2):
        return False
    return all_([attr_eq(d1[k], d2[k]) for k in d1]) if d1 else True


# ---------------------------------------------------------------------------
# C05 S-formula: bond-less molecules over the full periodic table (Hill order vs grammar slots)

def c05_formula(**p):
    """Element subsets of size <= 3 from the 118 symbols (solver-forked choices, or pinned by the job),
    counts from a small list; obligation: the emitted string passes REF-LAYOUT (Hill formula,
    sentence of the grammar)."""
    from ref.elements import SYMBOLS_BY_Z, Z_OF as ZZ
    counts = p.get("counts", [1, 2])
    k = p["k"]
    first = p.get("first")            # e.g. ["C"] or ["C", "H"]: fixed leading elements
    lo, hi = p.get("range", [0, 118])

    def body(c):
        from ref.tucan_ref import layout_problems
        syms = list(first or [])
        prev = -1
        for i in range(k):
            if i == 0:
                j = lo + c.choice("s0", hi - lo)
            else:
                j = prev + 1 + c.choice(f"s{i}", 118 - prev - 1) if prev + 1 < 118 else None
            if j is None:
                c.assume(False)
            prev = j
            syms.append(SYMBOLS_BY_Z[j])
        if len(set(syms)) != len(syms):
            c.assume(False)
        elements = []
        for i, sym in enumerate(syms):
            elements += [sym] * counts[c.choice(f"n{i}", len(counts))]
        atoms = {i: {"element_symbol": e, "atomic_number": ZZ[e], "partition": 0} for i, e in enumerate(elements)}
        s = ser(canon(T()["graph_from_molecule"](atoms, {})))
        c.note("elements", syms)
        c.note("tucan", s)
        problems, _ = layout_problems(s, elements)
        c.oblige("hill-formula-and-grammar", not problems, problems[:2])
    return body


# ---------------------------------------------------------------------------
# C02: pairs of non-isomorphic skeletons that 1-dimensional refinement cannot tell apart

WL_PAIRS = [("C6-ring", "2xC3"), ("C8-ring", "C4+C4"), ("prism", "K33")]


def c02_wlpairs(**p):
    def body(c):
        from props.common import CURATED
        from symx.core import implies
        a, b = WL_PAIRS[c.choice("pair", len(WL_PAIRS))]
        mols = []
        for tag, name in (("x", a), ("y", b)):
            n, bonds = CURATED[name]
            la = c.choice(f"lab_{tag}", n + 1)            # one mass label at a solver-chosen atom, or none
            mass = [None] * n
            if la < n:
                mass[la] = c.int(f"m_{tag}", lo=1)
            mols.append(Mol(["C"] * n, mass, [None] * n, {tuple(sorted(e)): {} for e in bonds}))
        s1 = ser(canon(graph_of(mols[0].listing())))
        s2 = ser(canon(graph_of(mols[1].listing())))
        c.note("pair", [a, b])
        c.note("tucan_1", s1)
        c.note("tucan_2", s2)
        iso, nphi = iso_condition(mols[0].n, mols[0].elements, list(mols[0].bonds), mols[0].mass, mols[0].rad,
                                  mols[1].elements, list(mols[1].bonds), mols[1].mass, mols[1].rad)
        c.oblige("equal-strings-imply-isomorphic", implies(str_eq(s1, s2), iso))
    return body

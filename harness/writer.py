"""Writer harnesses (C09): graph_to_molfile -> graph_from_molfile_text."""
from __future__ import annotations

from symx.core import all_, eq, not_
from symx.strings import str_eq, has_ph, shadow_int
from harness.pipeline import dom, graph_of, canon, ser
from harness import readers as R

_loaded = {}


def T():
    if not _loaded:
        from tucan.io.molfile_writer import graph_to_molfile
        _loaded.update(write=graph_to_molfile)
    return _loaded


def warmup():
    R.warmup()
    from harness.pipeline import warmup as w
    w()
    from harness.parser import warmup as w2
    w2()


def physical_line_problems(text):
    probs = []
    lines = text.split("\n")
    for i, ln in enumerate(lines):
        if len(ln) > 79:
            probs.append(f"line {i + 1} has {len(ln)} characters (+ newline > 80)")
        if i >= 4 and ln.endswith("-") and len(ln) != 79:
            probs.append(f"line {i + 1} ends in '-' but is not a full continuation line")
    return probs


def compare_graphs(c, g, g2, prefix=""):
    """g2 = read(write(g)): the i-th atom read back corresponds to the i-th atom of g in iteration order."""
    n1, n2 = list(g.nodes(data=True)), list(g2.nodes(data=True))
    c.oblige(prefix + "same-number-of-atoms-numbered-in-file-order", len(n1) == len(n2) and [k for k, _ in n2] == list(range(len(n2))))
    if len(n1) != len(n2):
        return
    pos1 = {k: i for i, (k, _) in enumerate(n1)}
    pos2 = {k: i for i, (k, _) in enumerate(n2)}
    conds = []
    for (_, d1), (_, d2) in zip(n1, n2):
        conds.append(d1.get("element_symbol") == d2.get("element_symbol"))
        for key in ("chg", "rad", "mass"):
            conds.append(eq(d1.get(key), d2.get(key)))
        for key in ("x_coord", "y_coord", "z_coord"):
            conds.append(float(f"{d1.get(key, 0):.6f}") == d2.get(key))
    c.oblige(prefix + "atom-attributes-read-back", all_(conds))
    e1 = {tuple(sorted((pos1[u], pos1[v]))): d for u, v, d in g.edges(data=True)}
    e2 = {tuple(sorted((pos2[u], pos2[v]))): d for u, v, d in g2.edges(data=True)}
    c.oblige(prefix + "same-bonds", sorted(e1) == sorted(e2) and g2.number_of_edges() == g.number_of_edges())
    if sorted(e1) == sorted(e2):
        c.oblige(prefix + "bond-types-read-back", all_([eq(e1[k].get("bond_type", 1), e2[k].get("bond_type")) for k in e1]) if e1 else True)


def wellformed(c, text, n_atoms, n_bonds):
    from ref.molfile_ref import read_v3000, BadMolfile
    try:
        atoms, bonds, problems = read_v3000(text, to_int=shadow_int if c.symbolic else int)
    except BadMolfile as e:
        c.oblige("well-formed-v3000", False, str(e))
        return
    c.oblige("well-formed-v3000", not problems and len(atoms) == n_atoms and len(bonds) == n_bonds, problems[:3])
    c.oblige("physical-lines-at-most-80-with-newline", not physical_line_problems(text), physical_line_problems(text)[:3])


def c09(**p):
    """L2: round trip with symbolic attribute values in the format's ranges."""
    def body(c):
        R.shadows(c)
        mol = dom(c, p)
        for a in range(mol.n):
            ex = {"x_coord": 1.5 * a - 0.0000004, "y_coord": -0.25 * a if a else -0.0, "z_coord": 1234.5678915 if a else 0.0000005}
            if c.flag(f"hc{a}"):
                ex["chg"] = c.int(f"chg{a}", -15, 15)
                c.assume(not_(eq(ex["chg"], 0)))
            mol.extra[a] = ex
        for (a, b) in list(mol.bonds):
            mol.bonds[(a, b)] = {"bond_type": c.int(f"bt{a}_{b}")} if not p.get("default_bond_type") else {}
        g = graph_of(mol.listing())
        if p.get("scramble"):
            from harness.pipeline import scramble
            g = scramble(c, g)            # numbering differs from listing order (e.g. a canonicalized graph)
        text = T()["write"](g)
        c.note("mol", mol.describe())
        c.note("molfile_body", text.split("\n", 2)[2])
        wellformed(c, text, mol.n, len(mol.bonds))
        g2 = R.T()["read"](text)
        compare_graphs(c, g, g2)
    return body


def c09_lengths(**p):
    """Integration at exact line lengths: concrete attributes, the x coordinate of atom 1 is
    10^k for a solver-chosen k, so the wrap position sweeps over every later character
    (inside a coordinate, a keyword, next to a blank)."""
    def body(c):
        from harness.domain import Mol
        k = c.choice("k", p.get("kmax", 150))
        big = p.get("big", False)
        els = ["C", "O", "H"]
        extra = [{"x_coord": 10.0 ** k, "y_coord": -12345.678901, "z_coord": (-1e300 if big else 0.000001), "chg": -15, "rad": 3, "mass": 123456789},
                 {"x_coord": 0.0, "y_coord": 10.0 ** (k // 2), "z_coord": -0.0, "chg": 7},
                 {"x_coord": 1.2345678901234567e19 if k % 2 else 1e22, "y_coord": 0.5 if k % 3 else -9.87654321987654e16, "z_coord": 10.0 ** k, "mass": 2}]
        mol = Mol(els, [None] * 3, [None] * 3, {(0, 1): {"bond_type": 2}, (1, 2): {"bond_type": 10 ** (k % 60)}}, extra)
        for a in range(3):
            for key in ("rad", "mass"):
                if key in extra[a]:
                    getattr(mol, key)[a] = extra[a].pop(key)
        g = graph_of(mol.listing())
        text = T()["write"](g)
        c.note("k", k)
        c.note("line_lengths", [len(x) for x in text.split("\n")][4:12])
        wellformed(c, text, 3, 2)
        g2 = R.T()["read"](text)
        compare_graphs(c, g, g2)
    return body


def c09_l3(**p):
    """L3: string -> graph -> molfile -> graph -> string returns the original string."""
    def body(c):
        from harness.parser import lifted_graph_from_tucan
        R.shadows(c)
        mol = dom(c, p)
        s = ser(canon(graph_of(mol.listing())))
        g = lifted_graph_from_tucan(c, s)
        text = T()["write"](g)
        g2 = R.T()["read"](text)
        s2 = ser(canon(g2))
        c.note("mol", mol.describe())
        c.note("tucan", s)
        c.note("tucan_after_molfile", s2)
        wellformed(c, text, mol.n, len(mol.bonds))
        c.oblige("string-survives-the-molfile-round-trip", str_eq(s, s2))
    return body


def c09_big(**p):
    """Index width: chains of 12 and 1001 atoms (4-digit indices) with labels on the last atoms; concrete."""
    def body(c):
        from harness.domain import Mol
        n = (12, 1001)[c.choice("size", 2)]
        extra = [{"x_coord": 0.1 * a, "y_coord": 0.0, "z_coord": -1.0 * a} for a in range(n)]
        extra[n - 1]["chg"] = -2
        mol = Mol(["C"] * n, [None] * n, [None] * n, {(a, a + 1): {"bond_type": 1 + a % 2} for a in range(n - 1)}, extra)
        mol.mass[n - 1] = 14
        mol.rad[n - 2] = 3
        g = graph_of(mol.listing())
        text = T()["write"](g)
        wellformed(c, text, n, n - 1)
        compare_graphs(c, g, R.T()["read"](text))
    return body

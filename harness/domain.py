"""Abstract molecules built from solver-chosen structure and symbolic data (DESIGN §5).

Everything here is polymorphic: `c` is a symx Ctx (symbolic) or ConcreteCtx
(plain values from a model), so the same code builds the symbolic family and
each concrete replay."""
from __future__ import annotations

from symx.core import at_most, Infeasible

Z = {"H": 1, "He": 2, "Li": 3, "Be": 4, "B": 5, "C": 6, "N": 7, "O": 8, "F": 9, "Na": 11, "Si": 14, "P": 15,
     "S": 16, "Cl": 17, "D": 1, "T": 1, "Co": 27, "Br": 35, "Cs": 55, "Cn": 112, "I": 53, "Se": 34, "Te": 52}


class Mol:
    """Abstract molecule: atoms 0..n-1 with element symbol, optional mass/rad
    (possibly symbolic), extra per-atom data, bonds as sorted pairs -> attrs."""

    def __init__(self, elements, mass, rad, bonds, extra=None):
        self.elements = list(elements)
        self.mass = list(mass)
        self.rad = list(rad)
        self.bonds = dict(bonds)            # {(a,b): {attr: value}}  a<b
        self.extra = extra or [{} for _ in elements]
        self.n = len(self.elements)

    def atom_attrs(self, a, atomic_number=None):
        d = {"element_symbol": self.elements[a],
             "atomic_number": atomic_number(self.elements[a]) if atomic_number else Z[self.elements[a]],
             "partition": 0}
        if self.mass[a] is not None:
            d["mass"] = self.mass[a]
        if self.rad[a] is not None:
            d["rad"] = self.rad[a]
        d.update(self.extra[a])
        return d

    def listing(self, order=None, bond_order=None, flip=(), numbering=None):
        """(atom_attrs, bond_attrs) dicts as a reader would hand them to
        graph_from_molecule: atoms listed in `order` (abstract ids), bonds in
        `bond_order` (indices into the sorted bond list), bonds in `flip`
        written with swapped endpoints."""
        order = list(range(self.n)) if order is None else list(order)
        # numbering[i]: the index (dict key) under which the i-th listed atom is declared; a reader hands the
        # atoms over in file order under their file indices, which need not ascend
        numbering = list(range(self.n)) if numbering is None else list(numbering)
        pos = {a: numbering[i] for i, a in enumerate(order)}
        atoms = {numbering[i]: self.atom_attrs(a) for i, a in enumerate(order)}
        blist = sorted(self.bonds)
        bond_order = range(len(blist)) if bond_order is None else bond_order
        bonds = {}
        for k in bond_order:
            a, b = blist[k]
            key = (pos[b], pos[a]) if k in flip else (pos[a], pos[b])
            bonds[key] = dict(self.bonds[(a, b)])
        return atoms, bonds

    def describe(self):
        return {"elements": self.elements, "mass": self.mass, "rad": self.rad,
                "bonds": [list(b) for b in sorted(self.bonds)]}


def pairs(n):
    return [(a, b) for a in range(n) for b in range(a + 1, n)]


def build_mol(c, n, alphabet=("C",), K_m=2, K_r=1, pinned=None, mass_lo=1, rad_lo=1,
              fixed_bonds=None, label_atoms=None, rad_hi=None, fixed_elements=None):
    """Solver-forked shape/elements/label positions; symbolic label values.

    pinned: dict {(a,b): bool} of edge bits fixed by the job (parallelism);
    fixed_bonds: a concrete bond list (curated skeletons) instead of forked bits;
    label_atoms: restrict label positions to these atoms."""
    if fixed_bonds is not None:
        bonds = {tuple(sorted(b)): {} for b in fixed_bonds}
    else:
        bonds = {}
        for (a, b) in pairs(n):
            if pinned is not None and (a, b) in pinned:
                present = pinned[(a, b)]
            else:
                present = c.flag(f"e{a}_{b}")
            if present:
                bonds[(a, b)] = {}
    if fixed_elements is not None:
        elements = list(fixed_elements)
    elif len(alphabet) == 1:
        elements = [alphabet[0]] * n
    else:
        elements = [alphabet[c.choice(f"el{a}", len(alphabet))] for a in range(n)]
    cand = list(range(n)) if label_atoms is None else list(label_atoms)
    hm = {a: c.bool(f"hm{a}") for a in cand} if K_m > 0 else {}
    hr = {a: c.bool(f"hr{a}") for a in cand} if K_r > 0 else {}
    if hm:
        c.assume(at_most(hm.values(), K_m))
    if hr:
        c.assume(at_most(hr.values(), K_r))
    mass, rad = [None] * n, [None] * n
    for a in cand:
        if hm and hm[a]:
            mass[a] = c.int(f"m{a}", lo=mass_lo)
        if hr and hr[a]:
            rad[a] = c.int(f"r{a}", lo=rad_lo, hi=rad_hi)
    return Mol(elements, mass, rad, bonds)


def choose_relisting(c, mol, atom_moves=True, bond_moves=True):
    """One solver-chosen generator: adjacent transposition of the atom listing,
    a bond-listing variant and a bond-orientation variant."""
    n = mol.n
    order = list(range(n))
    if atom_moves and n > 1:
        t = c.choice("t", n - 1)
        order[t], order[t + 1] = order[t + 1], order[t]
    nb = len(mol.bonds)
    bond_order, flip = None, ()
    if bond_moves and nb > 0:
        bl = c.choice("bl", 3 if nb > 1 else 1)
        if bl == 1:
            bond_order = list(reversed(range(nb)))
        elif bl == 2:
            bond_order = list(range(1, nb)) + [0]
        bo = c.choice("bo", 3)
        if bo == 1:
            flip = tuple(range(nb))
        elif bo == 2:
            flip = (c.choice("bf", nb),)
    return order, bond_order, flip

"""Reader-level harnesses: REF-V3000 / REF-V2000 text with symbolic numeric fields
through the real tucan.io.molfile_reader.graph_from_molfile_text (C05 C06 C07 C08)."""
from __future__ import annotations

import itertools

from symx.core import all_, any_, eq, not_, distinct, SymInt
from symx.strings import install_shadows, str_eq
from ref.molfile_ref import (A3, B3, v3000_text, v2000_text, v2000_atom_line, v2000_bond_line, v2000_prop_line,
                             V3000_ATOM_KEYWORDS, V3000_BOND_KEYWORDS, COORDS, CHARGE_CODE)
from ref.elements import Z_OF

_loaded = {}
ABSENT = object()


def T():
    if not _loaded:
        import tucan.io.molfile_v3000_reader as r3
        import tucan.io.molfile_v2000_reader as r2
        import tucan.io.molfile_reader as r
        from tucan.canonicalization import canonicalize_molecule
        from tucan.serialization import serialize_molecule
        _loaded.update(r3=r3, r2=r2, read=r.graph_from_molfile_text, canon=canonicalize_molecule, ser=serialize_molecule)
    return _loaded


def warmup():
    t = T()
    g = t["read"](v3000_text([A3(1, "C"), A3(2, "O")], [B3(1, 1, 1, 2)]))
    t["ser"](t["canon"](g))
    t["read"](v2000_text([v2000_atom_line("C"), v2000_atom_line("O")], [v2000_bond_line(1, 2, 1)], []))


def shadows(c):
    if c.symbolic:
        t = T()
        install_shadows([t["r3"], t["r2"]])


def tucan_of(g):
    t = T()
    return t["ser"](t["canon"](g))


def real_symbol(sym):
    return {"D": ("H", 2), "T": ("H", 3)}.get(sym, (sym, None))


def stated(node, key, v, was_stated):
    """Condition: the stored attribute equals what the file states; an explicitly
    written 0 means the same as omitting the property (strict on the node dict)."""
    stored = node.get(key, ABSENT)
    if not was_stated:
        return stored is ABSENT
    if stored is ABSENT:
        return eq(v, 0)
    return all_([eq(stored, v), not_(eq(v, 0))])


def lenient(node, key, v):
    """attrs.get(key, 0) == v  (a stored zero is not a difference)."""
    stored = node.get(key, 0)
    return eq(stored, 0 if v is None else v)


PROP_KEYS = {"CHG": "chg", "RAD": "rad", "MASS": "mass"}


def check_atoms(c, g, expected, strict=True, prefix=""):
    """expected: list over non-star atoms in file order of dicts
    {symbol, xyz, props: {KEY: value or None(not stated)}}"""
    nodes = list(g.nodes(data=True))
    c.oblige(prefix + "one-node-per-atom-line-in-file-order", [k for k, _ in nodes] == list(range(len(expected))), [k for k, _ in nodes])
    if len(nodes) != len(expected):
        return
    conds = []
    for (k, d), e in zip(nodes, expected):
        sym, iso = real_symbol(e["symbol"])
        conds.append(d.get("element_symbol") == sym and d.get("atomic_number") == Z_OF[sym])
        conds.append((d.get("x_coord"), d.get("y_coord"), d.get("z_coord")) == tuple(float(v) for v in e["xyz"])
                     and str(d.get("x_coord")) == str(float(e["xyz"][0])))
        for K, key in PROP_KEYS.items():
            v = e["props"].get(K)
            was = K in e["props"]
            if K == "MASS" and iso is not None:
                v, was = iso, True
            conds.append(stated(d, key, v, was) if strict else lenient(d, key, v if was else None))
    c.oblige(prefix + "atoms-as-stated", all_(conds))


def check_bonds(c, g, expected, prefix=""):
    """expected: {(u, v) positions: bond type}"""
    got = {tuple(sorted((u, v))): d for u, v, d in g.edges(data=True)}
    want = {tuple(sorted(k)): v for k, v in expected.items()}
    c.oblige(prefix + "one-edge-per-stated-bond", sorted(got) == sorted(want) and g.number_of_edges() == len(want), [sorted(got), sorted(want)])
    if sorted(got) == sorted(want):
        c.oblige(prefix + "bond-types-as-stated", all_([all_([sorted(got[k]) == ["bond_type"], eq(got[k].get("bond_type"), want[k])]) for k in want]) if want else True)


def sym_value(c, K, name, wide=True):
    if K == "CHG":
        return c.int(name, -15, 15)
    if K == "RAD":
        return c.int(name, 0 if wide else 1, 3)
    return c.int(name, 0 if wide else 1)


# ---------------------------------------------------------------------------
# C07 (a): one atom line, every subset/order of CHG RAD MASS, one extra keyword anywhere

RAW_COORDS = ["1e-07", "1.5E+03", "-0", "+2.5", ".5", "5.", "-.25", "00012.5000", "1e22"]


def c07_props(**p):
    syms = p.get("symbols", ["C"])

    def body(c):
        shadows(c)
        idx = c.int("i0", lo=1)
        sym = syms[c.choice("el0", len(syms))] if len(syms) > 1 else syms[0]
        keys = [K for K in ("CHG", "RAD", "MASS") if c.flag(f"has{K}")]
        perms = list(itertools.permutations(keys))
        order = perms[c.choice("order", len(perms))] if len(perms) > 1 else tuple(keys)
        # on a D/T atom only the explicit default MASS=0 is written (any other value would contradict the symbol)
        vals = {K: (c.int("mass", 0, 0) if (K == "MASS" and sym in ("D", "T")) else sym_value(c, K, K.lower())) for K in keys}
        extra, pos = None, None
        if p.get("extra", True):
            xk = c.choice("xk", len(V3000_ATOM_KEYWORDS) + 1)
            if xk < len(V3000_ATOM_KEYWORDS):
                extra = V3000_ATOM_KEYWORDS[xk]
                pos = c.choice("xp", len(keys) + 1) if keys else 0
        xyz = (COORDS[c.choice("cx", len(COORDS))], 1.25, -2.0) if p.get("coords") else (0.5, 1.25, -2.0)
        text = v3000_text([A3(idx, sym, xyz, [(K, vals[K]) for K in order], extra=extra, extra_pos=pos)], [])
        if p.get("coords_raw"):
            # other legal spellings of a real number in the x field
            raw = RAW_COORDS[c.choice("raw", len(RAW_COORDS))]
            text = text.replace(" 0.5 1.25 ", f" {raw} 1.25 ", 1)
            xyz = (float(raw), 1.25, -2.0)
        c.note("molfile", text)
        g = T()["read"](text)
        c.note("node", {k: v for k, v in dict(g.nodes[0]).items() if k != "invariant_code"} if g.number_of_nodes() else None)
        check_atoms(c, g, [{"symbol": sym, "xyz": xyz, "props": vals}])
        c.oblige("no-bonds", g.number_of_edges() == 0)
    return body


# ---------------------------------------------------------------------------
# C07 (b): several atoms, symbolic unique indices in any file order, D/T, bonds, star atoms

def c07_table(**p):
    syms = p.get("symbols", ["C", "H", "D", "T", "Cl"])
    n = p["n"]
    star = p.get("star", False)

    def body(c):
        shadows(c)
        total = n + (1 if star else 0)
        idx = [c.int(f"i{a}", lo=1) for a in range(total)]
        c.assume(distinct(idx))
        elements = [syms[c.choice(f"el{a}", len(syms))] if len(syms) > 1 else syms[0] for a in range(n)]
        # file order of the atom lines: a solver-chosen permutation
        perms = list(itertools.permutations(range(total)))
        order = perms[c.choice("lineorder", len(perms))] if total > 1 and p.get("permute_lines", True) else tuple(range(total))
        which = p.get("props", "one")
        atoms, expected = {}, {}
        for a in range(n):
            props = []
            if which == "all" and elements[a] not in ("D", "T"):
                props = [(K, sym_value(c, K, f"{K.lower()}{a}")) for K in ("CHG", "RAD", "MASS")]
            elif which == "one":
                k = c.choice(f"prop{a}", 4)
                if k < 3 and not (k == 2 and elements[a] in ("D", "T")):
                    K = ("CHG", "RAD", "MASS")[k]
                    props = [(K, sym_value(c, K, f"{K.lower()}{a}"))]
            xyz = (0.5 * a, -1.0, 0.25)
            atoms[a] = A3(idx[a], elements[a], xyz, props)
            expected[a] = {"symbol": elements[a], "xyz": xyz, "props": dict(props)}
        if star:
            atoms[n] = A3(idx[n], "*", (0.0, 0.0, 0.0), [])
        # bonds: solver-chosen simple graph on the real atoms, symbolic types, solver-chosen orientation
        blines, want = [], {}
        pairs = [(a, b) for a in range(n) for b in range(a + 1, n)]
        bi = 1
        used = set()
        if not star:
            for (a, b) in pairs:
                if c.flag(f"e{a}_{b}"):
                    bt = c.int(f"bt{a}_{b}", 1, 10)          # the bond types the V3000 specification defines
                    a1, a2 = (b, a) if c.flag(f"fl{a}_{b}") else (a, b)
                    xk = c.choice(f"bx{a}_{b}", len(V3000_BOND_KEYWORDS) + 1) if p.get("bond_extra") else len(V3000_BOND_KEYWORDS)
                    blines.append(B3(bi, bt, idx[a1], idx[a2], extra=V3000_BOND_KEYWORDS[xk] if xk < len(V3000_BOND_KEYWORDS) else None))
                    want[(a, b)] = bt
                    bi += 1
        else:
            # one multi-attachment bond: atom `src` to the star atom, ENDPTS = a solver-chosen non-empty subset of the others
            src = c.choice("src", n)
            others = [a for a in range(n) if a != src]
            members = [a for a in others if c.flag(f"ep{a}")]
            c.assume(len(members) >= 1)
            if len(members) > 1 and c.flag("ep_rev"):
                members = list(reversed(members))
            bt = c.int("bt_star", 1, 10)
            a1, a2 = (idx[n], idx[src]) if c.flag("star_first") else (idx[src], idx[n])
            attach = ("ANY", "ALL")[c.choice("attach", 2)]
            sb = B3(1, bt, a1, a2, endpts=[idx[m] for m in members], attach=attach,
                    extra=(None, "CFG=0", "TOPO=1")[c.choice("star_extra", 3)])           # a keyword in front of ENDPTS
            sb.attach_first = c.flag("attach_first")
            blines.append(sb)
            for m in members:
                want[(src, m)] = bt
            # plus an ordinary bond between two real atoms not already bonded
            if p.get("plain_bond", True) and len(others) >= 2:
                u, v = others[0], others[1]
                bt2 = c.int("bt_plain", 1, 10)
                blines.append(B3(2, bt2, idx[u], idx[v]))
                want[(u, v)] = bt2
        text = v3000_text([atoms[a] for a in order], blines)
        c.note("molfile", text)
        g = T()["read"](text)
        real_order = [a for a in order if a < n]
        pos = {a: i for i, a in enumerate(real_order)}
        check_atoms(c, g, [expected[a] for a in real_order])
        check_bonds(c, g, {(pos[a], pos[b]): t for (a, b), t in want.items()})
        c.note("nodes", [{k: v for k, v in d.items() if k in ("element_symbol", "chg", "rad", "mass")} for _, d in g.nodes(data=True)])
    return body


# ---------------------------------------------------------------------------
# C07 (c): blank runs and continuation lines (numbers concrete where a line is cut)

FIXED_ATOMS = [A3(7, "N", (1.5, -0.25, 0.0), [("CHG", -1), ("MASS", 15)]), A3(3, "C", (12345.678901, 0.0, 1e-7), [("RAD", 2)], extra="CFG=1"),
               A3(12, "D", (0.0, 2.0, -3.5), [])]
FIXED_BONDS = [B3(1, 2, 7, 3, extra="CFG=1"), B3(2, 1, 12, 3)]
FIXED_EXPECT = [{"symbol": "N", "xyz": (1.5, -0.25, 0.0), "props": {"CHG": -1, "MASS": 15}},
                {"symbol": "C", "xyz": (12345.678901, 0.0, 1e-7), "props": {"RAD": 2}},
                {"symbol": "D", "xyz": (0.0, 2.0, -3.5), "props": {}}]
FIXED_WANT = {(0, 1): 2, (2, 1): 1}


def c07_layout(**p):
    """Solver-chosen blank run (which gap of which line, length 2..3, also leading blanks
    after the 'M  V30 ' prefix) or continuation (which line, which column)."""
    mode = p["mode"]

    def body(c):
        shadows(c)
        from ref.molfile_ref import v3000_atom_tokens, v3000_bond_tokens, join_tokens
        logical = [join_tokens(v3000_atom_tokens(a)) for a in FIXED_ATOMS] + [join_tokens(v3000_bond_tokens(b)) for b in FIXED_BONDS]
        ln = c.choice("line", len(logical))
        if mode == "gap":
            ntok = len(logical[ln].split(" "))
            tok = c.choice("tok", ntok - 1)
            run = 2 + c.choice("run", 2)
            text = v3000_text(FIXED_ATOMS, FIXED_BONDS, gaps={ln: (tok, run)})
        else:
            col = 1 + c.choice("col", len(logical[ln]) - 1)
            text = v3000_text(FIXED_ATOMS, FIXED_BONDS, split=(ln, col))
            if p.get("double"):
                # a second continuation inside the remainder
                lines = text.split("\n")
                k = next(i for i, l in enumerate(lines) if l.endswith("-"))
                rest = lines[k + 1][7:]
                if len(rest) >= 2:
                    col2 = 1 + c.choice("col2", len(rest) - 1)
                    lines[k + 1:k + 2] = ["M  V30 " + rest[:col2] + "-", "M  V30 " + rest[col2:]]
                    text = "\n".join(lines)
        if p.get("crlf"):
            text = text.replace("\n", "\r\n")
        c.note("molfile", text)
        g = T()["read"](text)
        check_atoms(c, g, FIXED_EXPECT)
        check_bonds(c, g, FIXED_WANT)
    return body


# ---------------------------------------------------------------------------
# C08: V2000 renderings against the V3000 rendering of the same abstract molecule

CODE_MEANING = {0: (0, 0), 1: (3, 0), 2: (2, 0), 3: (1, 0), 4: (0, 2), 5: (-1, 0), 6: (-2, 0), 7: (-3, 0)}
UNRELATED = [["M  STY  1   1 SUP"], ["M  ALS   1  2 F C   N   "], ["A    1", "alias"], ["V    1 a comment"],
             ["G    1   2", "Et"], ["S  SKP  1", "skipped"], ["M  SAL   1  2   1   2"], ["M  RGP  1   1   1"]]


def compositions(k, maxpart=8):
    if k == 0:
        return [[]]
    out = []
    for first in range(1, min(k, maxpart) + 1):
        out += [[first] + r for r in compositions(k - first, maxpart)]
    return out


def fixed_lines(tag, entries):
    return [v2000_prop_line(tag, entries[i:i + 8]) for i in range(0, len(entries), 8)]


def prop_lines(c, tag, entries, name):
    if not entries:
        return []
    comps = [x for x in compositions(len(entries)) if len(x) <= 3]
    comp = comps[c.choice(f"group_{name}", len(comps))] if len(comps) > 1 else comps[0]
    if len(comp) == 1 and len(entries) > 1 and c.flag(f"rev_{name}"):
        entries = entries[::-1]            # all entries on one line, in descending atom order (the format does not ask for ascending order)
    lines, i = [], 0
    for part in comp:
        lines.append(v2000_prop_line(tag, entries[i:i + part]))
        i += part
    return lines


def c08(**p):
    n = p["n"]
    syms = p.get("symbols", ["C"])
    mode = p["mode"]            # codes | lines | stale | iso | layout | bonds

    def body(c):
        shadows(c)
        elements = [syms[c.choice(f"el{a}", len(syms))] if len(syms) > 1 else syms[0] for a in range(n)]
        chg = [0] * n            # abstract values (possibly symbolic; 0 = none)
        rad = [0] * n
        mass = [None] * n
        ccc = [0] * n
        chg_entries, rad_entries, iso_entries = [], [], []
        chg_decl, rad_decl = [False] * n, [False] * n
        if mode == "codes":
            for a in range(n):
                ccc[a] = c.choice(f"ccc{a}", 8)
                chg[a], rad[a] = CODE_MEANING[ccc[a]]
        if mode in ("lines", "stale", "layout"):
            for a in range(n):
                if mode == "layout" or c.flag(f"hc{a}"):
                    chg[a] = c.int(f"chg{a}", -15, 15)
                    if mode == "layout":
                        c.assume(not_(eq(chg[a], 0)))
                    chg_decl[a] = True
                    chg_entries.append((a + 1, chg[a]))
                if mode == "layout" or c.flag(f"hr{a}"):
                    rad[a] = c.int(f"rad{a}", 1 if mode == "layout" else 0, 3)
                    rad_decl[a] = True
                    rad_entries.append((a + 1, rad[a]))
            if mode == "stale":
                a = c.choice("stale_atom", n)
                ccc[a] = 1 + c.choice("stale_code", 7)
                if not chg_entries and not rad_entries:       # nothing supersedes: the code counts
                    chg[a], rad[a] = CODE_MEANING[ccc[a]]
        if mode == "lines" and p.get("with_iso"):
            for a in range(n):
                if c.flag(f"hi{a}"):
                    mass[a] = c.int(f"mass{a}", 1)
                    iso_entries.append((a + 1, mass[a]))
        if mode == "stale" and p.get("with_iso"):
            a = c.choice("iso_atom", n)
            if elements[a] not in ("D", "T"):
                mass[a] = c.int(f"mass{a}", 1)
                iso_entries.append((a + 1, mass[a]))
        if mode in ("iso", "layout"):
            for a in range(n):
                if elements[a] not in ("D", "T") and (mode == "layout" or c.flag(f"hi{a}")):
                    mass[a] = c.int(f"mass{a}", 1)
                    iso_entries.append((a + 1, mass[a]))
        if mode == "iso" and p.get("with_charge_line"):
            chg[0] = c.int("chg0", -15, 15)
            chg_decl[0] = True
            chg_entries.append((1, chg[0]))
        # bonds
        want, blines3, blines2 = {}, [], []
        pairs = [(a, b) for a in range(n) for b in range(a + 1, n)]
        for (a, b) in pairs:
            present = c.flag(f"e{a}_{b}") if mode == "bonds" else (b == a + 1)
            if present:
                bt = c.int(f"bt{a}_{b}", 1, 8) if mode in ("bonds", "layout") else 1      # V2000 bond types 1..8
                a1, a2 = (b, a) if mode == "bonds" and c.flag(f"fl{a}_{b}") else (a, b)
                blines2.append(v2000_bond_line(a1 + 1, a2 + 1, bt))
                blines3.append(B3(len(blines3) + 1, bt, a1 + 1, a2 + 1))
                want[(a, b)] = bt
        # property block
        gc = p.get("group_choice", ("CHG", "RAD", "ISO"))
        groups = [prop_lines(c, "CHG", chg_entries, "chg") if "CHG" in gc else fixed_lines("CHG", chg_entries),
                  prop_lines(c, "RAD", rad_entries, "rad") if "RAD" in gc else fixed_lines("RAD", rad_entries),
                  prop_lines(c, "ISO", iso_entries, "iso") if "ISO" in gc else fixed_lines("ISO", iso_entries)]
        if mode == "layout" or (mode == "stale" and p.get("with_iso")):
            perms = list(itertools.permutations(range(3)))
            groups = [groups[i] for i in perms[p["grouporder"] if "grouporder" in p else c.choice("grouporder", 6)]]
        plines = [ln for g in groups for ln in g]
        if mode in ("layout", "iso", "lines") and p.get("unrelated", mode == "layout"):
            u = c.choice("unrelated", len(UNRELATED) + 1)
            if u < len(UNRELATED):
                at = c.choice("unrelated_at", len(plines) + 1)
                plines[at:at] = UNRELATED[u]
        atom_lists = []
        if mode == "bonds" and c.flag("atomlist"):
            atom_lists = ["  1 F    2   6   7"]
        alines = [v2000_atom_line(elements[a], (0.5 * a, -1.0, 0.25), ccc=ccc[a]) for a in range(n)]
        t2 = v2000_text(alines, blines2, plines, atom_lists=atom_lists, chiral=c.choice("chiral", 2) if p.get("chiral", mode in ("lines", "iso", "bonds")) else 0)
        a3 = []
        for a in range(n):
            props = []
            # the V3000 rendering omits default values (a fork on "value == 0" for symbolic ones)
            if bool(not_(eq(chg[a], 0))):
                props.append(("CHG", chg[a]))
            if bool(not_(eq(rad[a], 0))):
                props.append(("RAD", rad[a]))
            if mass[a] is not None:
                props.append(("MASS", mass[a]))
            a3.append(A3(a + 1, elements[a], (0.5 * a, -1.0, 0.25), props))
        t3 = v3000_text(a3, blines3)
        c.note("v2000", t2)
        c.note("v3000", t3)
        read = T()["read"]
        g2, g3 = read(t2), read(t3)
        expected = [{"symbol": elements[a], "xyz": (0.5 * a, -1.0, 0.25),
                     "props": {"CHG": chg[a], "RAD": rad[a], **({"MASS": mass[a]} if mass[a] is not None else {})}} for a in range(n)]
        check_atoms(c, g2, expected, strict=False, prefix="v2000:")
        check_bonds(c, g2, want, prefix="v2000:")
        check_atoms(c, g3, expected, strict=False, prefix="v3000:")
        check_bonds(c, g3, want, prefix="v3000:")
        if p.get("strings", mode not in ("layout", "bonds")):
            s2, s3 = tucan_of(g2), tucan_of(g3)
            c.note("tucan_v2000", s2)
            c.note("tucan_v3000", s3)
            c.oblige("same-tucan-string", str_eq(s2, s3))
    return body


# ---------------------------------------------------------------------------
# C06: two renderings of one molecule that differ only in non-identity data

HEADERS = [("", "", ""), ("x" * 80, "  REF  V2000", "M  END"), ("name", "", "M  V30 BEGIN CTAB")]
TRAILING = [["BEGIN COLLECTION", "MDLV30/STEABS ATOMS=(1 1)", "END COLLECTION"],
            ["BEGIN SGROUP", "1 SUP 1 ATOMS=(1 1) LABEL=X", "END SGROUP"],
            ["BEGIN OBJ3D", "END OBJ3D"]]


def c06(**p):
    from harness.pipeline import dom

    def body(c):
        shadows(c)
        mol = dom(c, p)
        n = mol.n
        blist = sorted(mol.bonds)

        def props(a):
            out = []
            if mol.rad[a] is not None:
                out.append(("RAD", mol.rad[a]))
            if mol.mass[a] is not None:
                out.append(("MASS", mol.mass[a]))
            return out
        # rendering 1: plain
        a1 = [A3(a + 1, mol.elements[a], (0.0, 0.0, 0.0), props(a)) for a in range(n)]
        b1 = [B3(k + 1, 1, a + 1, b + 1) for k, (a, b) in enumerate(blist)]
        t1 = v3000_text(a1, b1)
        # rendering 2: same molecule, other non-identity data
        idx = [c.int(f"i{a}", lo=1) for a in range(n)]
        c.assume(distinct(idx))
        variant = c.choice("variant", 7)
        xk_atom = V3000_ATOM_KEYWORDS[c.choice("xk", len(V3000_ATOM_KEYWORDS))] if variant == 1 else None
        xk_bond = V3000_BOND_KEYWORDS[c.choice("bxk", len(V3000_BOND_KEYWORDS))] if variant == 2 else None
        a2 = []
        for a in range(n):
            chg = c.int(f"chg{a}", -15, 15)
            if a > 0:
                c.assume(not_(eq(chg, 0)))       # only atom 0 may state an explicit CHG=0 (keeps the reader's zero test from forking 2^n ways)
            xyz = (COORDS[c.choice("coord", len(COORDS))], -1.0 * a, 1e22) if (variant == 5 and a == 0) else (1.5 * a, 0.25, -2.0)
            pr = [("CHG", chg)] + props(a)
            if variant == 6:
                pr = list(reversed(pr))
            a2.append(A3(idx[a], mol.elements[a], xyz, pr, aamap=c.int(f"aam{a}", 0) if a == 0 else 0,
                         extra=xk_atom if a == 0 else None, extra_pos=0))
        b2 = [B3(k + 1, c.int(f"bt{a}_{b}", 1, 10), idx[a], idx[b], extra=xk_bond if k == 0 else None) for k, (a, b) in enumerate(blist)]
        header = HEADERS[c.choice("header", len(HEADERS))] if variant == 0 else ("", "  REF", "")
        trailing = TRAILING[c.choice("trailing", len(TRAILING))] if variant == 3 else ()
        t2 = v3000_text(a2, b2, header=header, trailing=trailing, eol="\r\n" if variant == 4 else "\n")
        if p.get("trailing_blanks"):
            # trailing blanks on the version line and on every 'M  V30' line
            eol = "\r\n" if variant == 4 else "\n"
            t2 = eol.join((ln + "   ") if (i == 3 or ln.startswith("M  V30")) else ln for i, ln in enumerate(t2.split(eol)))
        c.note("mol", mol.describe())
        c.note("rendering1", t1)
        c.note("rendering2", t2)
        read = T()["read"]
        s1, s2 = tucan_of(read(t1)), tucan_of(read(t2))
        c.note("tucan1", s1)
        c.note("tucan2", s2)
        c.oblige("strings-equal", str_eq(s1, s2))
    return body


AFTER_END = [["> <NAME>", "x", "", "$$$$"],
             ["M  ISO  1   1  13", "M  END"],
             ["M  RAD  1   1   2", "M  CHG  1   1   1"],
             ["> <ID>", "1", "", "$$$$", "next", "  PROG", "", "  1  0  0  0  0  0  0  0  0  0999 V2000",
              "    0.0000    0.0000    0.0000 C   0  0  0  0  0  0  0  0  0  0  0  0", "M  ISO  1   1  13", "M  RAD  1   1   2", "M  END", "$$$$"]]


def c06_v2000(**p):
    """V2000 pair: coordinates, bond types and stereo fields, charges (M  CHG), header lines."""
    from harness.pipeline import dom

    def body(c):
        shadows(c)
        mol = dom(c, p)
        n = mol.n
        blist = sorted(mol.bonds)
        iso = [(a + 1, mol.mass[a]) for a in range(n) if mol.mass[a] is not None]
        rad = [(a + 1, mol.rad[a]) for a in range(n) if mol.rad[a] is not None]

        def render(alt):
            codes = [0] * n
            if alt and p.get("codes"):
                codes = [(0, 1, 2, 3, 5, 6, 7)[c.choice(f"ccc{a}", 7)] for a in range(n)]      # charge codes only (4 = radical is identity data)
            al = [v2000_atom_line(mol.elements[a], (1.5 * a if alt else 0.0, -0.25 if alt else 0.0, 0.0), ccc=codes[a]) for a in range(n)]
            bl = [v2000_bond_line(a + 1, b + 1, c.int(f"bt{a}_{b}", 1, 8) if alt else 1, stereo=(1 if alt and k == 0 else 0)) for k, (a, b) in enumerate(blist)]
            pl = []
            chg = [(a + 1, c.int(f"chg{a}", -15, 15)) for a in range(n)] if alt and not p.get("codes") else []
            pl += fixed_lines("CHG", chg) if chg else []
            pl += fixed_lines("RAD", rad) + fixed_lines("ISO", iso)
            if alt and p.get("stale"):
                # M  CHG lines are present: whatever the atom-block charge column says (incl. code 4) is superseded
                for a in range(n):
                    al[a] = v2000_atom_line(mol.elements[a], (1.5 * a, -0.25, 0.0), ccc=c.choice(f"stale{a}", 8) if a < 2 else 0)
            if alt and p.get("unrelated"):
                u = c.choice("unrelated", len(UNRELATED))
                at = c.choice("unrelated_at", len(pl) + 1)
                pl[at:at] = UNRELATED[u]
            text = v2000_text(al, bl, pl, header=("name", "  PROG", "comment") if alt else ("", "", ""), eol="\r\n" if alt and p.get("crlf") else "\n", chiral=1 if alt else 0)
            if alt and p.get("after_end"):
                # content after "M  END" (an SD file's data items and a following record) is not part of this molecule
                k = c.choice("after_end", len(AFTER_END))
                text += "\n".join(AFTER_END[k]) + "\n"
            return text
        t1, t2 = render(False), render(True)
        c.note("mol", mol.describe())
        c.note("rendering1", t1)
        c.note("rendering2", t2)
        read = T()["read"]
        s1, s2 = tucan_of(read(t1)), tucan_of(read(t2))
        c.note("tucan1", s1)
        c.note("tucan2", s2)
        c.oblige("strings-equal", str_eq(s1, s2))
    return body


# ---------------------------------------------------------------------------
# C05 at reader level: whatever a conformant file states (explicit zeros included) -> emitted string

def c05_reader(**p):
    n = p.get("n", 2)
    fmt = p.get("fmt", "v3000")

    def body(c):
        from ref.tucan_ref import layout_problems
        from symx.strings import term_of_char, ge, has_ph
        shadows(c)
        syms = p.get("symbols", ["C", "H", "D"])
        elements = [syms[c.choice(f"el{a}", len(syms))] for a in range(n)]
        vals = [{"RAD": c.int(f"rad{a}", 0, 3), "MASS": c.int(f"mass{a}", 0)} for a in range(n)]
        if fmt == "v3000":
            atoms = [A3(a + 1, elements[a], (0.0, 0.0, 0.0), [("CHG", c.int(f"chg{a}", -15, 15))] + ([("RAD", vals[a]["RAD"])] + ([("MASS", vals[a]["MASS"])] if elements[a] not in ("D", "T") else [])))
                     for a in range(n)]
            text = v3000_text(atoms, [B3(1, 1, 1, 2)] if n > 1 else [])
        else:
            al = [v2000_atom_line(elements[a]) for a in range(n)]
            pl = fixed_lines("RAD", [(a + 1, vals[a]["RAD"]) for a in range(n)]) + fixed_lines("ISO", [(a + 1, vals[a]["MASS"]) for a in range(n) if elements[a] not in ("D", "T")])
            text = v2000_text(al, [v2000_bond_line(1, 2, 1)] if n > 1 else [], pl)
        c.note("molfile", text)
        s = tucan_of(T()["read"](text))
        c.note("tucan", s)
        real = [real_symbol(e)[0] for e in elements]
        problems, conds = layout_problems(s, real, term_of_char, ge) if has_ph(s) else layout_problems(s, real)
        c.oblige("grammar-and-layout", not problems, problems[:3])
        c.oblige("values-strictly-positive", all_(conds) if conds else True)
    return body


# ---------------------------------------------------------------------------
# C01 at reader level: the same molecule listed/numbered/oriented differently in the file

def c01_reader(**p):
    from harness.pipeline import dom

    def body(c):
        shadows(c)
        mol = dom(c, p)
        n = mol.n
        blist = sorted(mol.bonds)

        def props(a):
            out = []
            if mol.mass[a] is not None:
                out.append(("MASS", mol.mass[a]))
            if mol.rad[a] is not None:
                out.append(("RAD", mol.rad[a]))
            return out
        a1 = [A3(a + 1, mol.elements[a], (0.0, 0.0, 0.0), props(a)) for a in range(n)]
        b1 = [B3(k + 1, 1, a + 1, b + 1) for k, (a, b) in enumerate(blist)]
        # second file: symbolic distinct indices, a solver-chosen adjacent transposition of the atom lines,
        # bond lines reversed or rotated, endpoints of all / one bond exchanged
        idx = [c.int(f"i{a}", lo=1) for a in range(n)]
        c.assume(distinct(idx))
        order = list(range(n))
        if n > 1:
            t = c.choice("t", n - 1)
            order[t], order[t + 1] = order[t + 1], order[t]
        a2 = [A3(idx[a], mol.elements[a], (0.0, 0.0, 0.0), props(a)) for a in order]
        nb = len(blist)
        bo = list(range(nb))
        flip = set()
        if nb:
            v = c.choice("bl", 3 if nb > 1 else 1)
            bo = bo[::-1] if v == 1 else (bo[1:] + bo[:1] if v == 2 else bo)
            f = c.choice("bo", 3)
            flip = set(range(nb)) if f == 1 else ({c.choice("bf", nb)} if f == 2 else set())
        b2 = []
        for k2, k in enumerate(bo):
            a, b = blist[k]
            u, w = (b, a) if k in flip else (a, b)
            b2.append(B3(k2 + 1, 1, idx[u], idx[w]))
        t1, t2 = v3000_text(a1, b1), v3000_text(a2, b2)
        fmt2 = p.get("v2000")
        if fmt2:
            # V2000 twin of the second listing (indices are positions there): atom lines permuted, bonds as above
            pos = {a: i + 1 for i, a in enumerate(order)}
            al = [v2000_atom_line(mol.elements[a]) for a in order]
            bl = []
            for k in bo:
                a, b = blist[k]
                u, w = (b, a) if k in flip else (a, b)
                bl.append(v2000_bond_line(pos[u], pos[w], 1))
            rad_e = [(pos[a], mol.rad[a]) for a in order if mol.rad[a] is not None]
            iso_e = [(pos[a], mol.mass[a]) for a in order if mol.mass[a] is not None]
            if p.get("descending_entries"):      # entries of one property line in descending atom order
                rad_e, iso_e = sorted(rad_e, reverse=True), sorted(iso_e, reverse=True)
            if p.get("one_entry_per_line"):
                pl = [v2000_prop_line("RAD", [e]) for e in rad_e] + [v2000_prop_line("ISO", [e]) for e in iso_e]
            else:
                pl = fixed_lines("RAD", rad_e) + fixed_lines("ISO", iso_e)
            t2 = v2000_text(al, bl, pl)
        c.note("mol", mol.describe())
        c.note("file1", t1)
        c.note("file2", t2)
        read = T()["read"]
        s1, s2 = tucan_of(read(t1)), tucan_of(read(t2))
        c.note("tucan1", s1)
        c.note("tucan2", s2)
        c.oblige("strings-equal", str_eq(s1, s2))
    return body


# ---------------------------------------------------------------------------
# concrete legs: graph_from_file (I/O) and a 999-atom V2000 file (three-digit fields filled to the last column)

def c07_file(**p):
    def body(c):
        import os
        import tempfile
        from tucan.io import graph_from_file
        variant = c.choice("variant", 3)
        atoms = list(FIXED_ATOMS)
        text = v3000_text(atoms, FIXED_BONDS, eol="\r\n" if variant == 1 else "\n", split=(0, 12) if variant == 2 else None)
        d = tempfile.mkdtemp(prefix="c07file", dir="/tmp")
        path = os.path.join(d, "m.mol")
        try:
            with open(path, "w", newline="") as f:
                f.write(text)
            g = graph_from_file(path)
        finally:
            os.remove(path)
            os.rmdir(d)
        check_atoms(c, g, FIXED_EXPECT)
        check_bonds(c, g, FIXED_WANT)
    return body


def c08_big(**p):
    """999 atoms (the largest V2000 file): a chain with charges, radicals and isotopes on the last atoms,
    125 M  ISO lines of 8 entries; V2000 vs V3000 graphs and strings."""
    n = p.get("n", 999)

    def body(c):
        kind = c.choice("kind", 2)
        els = ["C"] * n
        iso = [(a + 1, 13 + (a % 2)) for a in range(n)] if kind == 0 else [(n, 238), (n - 1, 13), (2, 101)]
        chg = [(n, -15), (1, 15), (n - 3, -1)]          # values that fill the three-character field
        rad = [(n - 2, 2), (3, 3)]
        al = [v2000_atom_line("C", (float(a % 100), float(a // 100), 0.0)) for a in range(n)]
        bl = [v2000_bond_line(a + 1, a + 2, 1 + (a % 3)) for a in range(n - 1)]
        pl = fixed_lines("CHG", chg) + fixed_lines("RAD", rad) + fixed_lines("ISO", iso)
        t2 = v2000_text(al, bl, pl)
        a3 = []
        for a in range(n):
            props = [(K, v) for K, ents in (("CHG", chg), ("RAD", rad), ("MASS", iso)) for (i, v) in ents if i == a + 1]
            a3.append(A3(a + 1, "C", (float(a % 100), float(a // 100), 0.0), props))
        b3 = [B3(a + 1, 1 + (a % 3), a + 1, a + 2) for a in range(n - 1)]
        t3 = v3000_text(a3, b3)
        read = T()["read"]
        g2, g3 = read(t2), read(t3)
        key = lambda g: ([(d.get("element_symbol"), d.get("chg", 0), d.get("rad", 0), d.get("mass", 0)) for _, d in g.nodes(data=True)],
                         sorted((min(u, v), max(u, v), d.get("bond_type")) for u, v, d in g.edges(data=True)))
        c.oblige("same-graph-from-v2000-and-v3000", key(g2) == key(g3) and g2.number_of_nodes() == n)
        c.oblige("same-tucan-string", tucan_of(g2) == tucan_of(g3))
    return body


# ---------------------------------------------------------------------------
# C02 at reader level: the string of a molecule read from a file decodes (independent reader) to that molecule

def c02_reader(**p):
    from harness.pipeline import dom, ref_decode, iso_condition

    def body(c):
        shadows(c)
        mol = dom(c, p)
        n = mol.n
        blist = sorted(mol.bonds)
        fmt = p.get("fmt", "v3000")
        if fmt == "v3000":
            atoms = [A3(a + 1, mol.elements[a], (0.0, 0.0, 0.0), ([("MASS", mol.mass[a])] if mol.mass[a] is not None else []) + ([("RAD", mol.rad[a])] if mol.rad[a] is not None else []))
                     for a in range(n)]
            text = v3000_text(atoms, [B3(k + 1, 1, a + 1, b + 1) for k, (a, b) in enumerate(blist)])
        else:
            al = [v2000_atom_line(mol.elements[a]) for a in range(n)]
            bl = [v2000_bond_line(a + 1, b + 1, 1) for (a, b) in blist]
            rad_e = [(a + 1, mol.rad[a]) for a in range(n) if mol.rad[a] is not None]
            iso_e = [(a + 1, mol.mass[a]) for a in range(n) if mol.mass[a] is not None]
            pl = [v2000_prop_line("RAD", [e]) for e in rad_e] + [v2000_prop_line("ISO", [e]) for e in iso_e]      # one entry per line
            if p.get("iso_first"):
                pl = [v2000_prop_line("ISO", [e]) for e in iso_e] + [v2000_prop_line("RAD", [e]) for e in rad_e]
            text = v2000_text(al, bl, pl)
        s = tucan_of(T()["read"](text))
        c.note("mol", mol.describe())
        c.note("molfile", text)
        c.note("tucan", s)
        try:
            el, bonds, attrs, conds = ref_decode(s)
        except Exception as e:
            c.oblige("reference-decoder-accepts", False, repr(e))
            return
        mass2 = [attrs.get(i, {}).get("mass") for i in range(len(el))]
        rad2 = [attrs.get(i, {}).get("rad") for i in range(len(el))]
        cond, nphi = iso_condition(n, el, bonds, mass2, rad2, mol.elements, list(mol.bonds), mol.mass, mol.rad)
        c.oblige("decoded-graph-isomorphic-to-the-molecule-in-the-file", cond)
    return body


def c02_reader_big(**p):
    """Three-digit atom numbers in V2000 property lines: a 120-atom chain with one mass label and one radical
    at solver-chosen positions from a list that straddles 99/100/101; the emitted string must decode to that molecule."""
    n = p.get("n", 120)
    spots = p.get("spots", [4, 16, 98, 99, 100, 104, 116, 119])

    def body(c):
        from harness.pipeline import ref_decode, iso_condition
        pm = spots[c.choice("mass_at", len(spots))]
        pr = spots[c.choice("rad_at", len(spots))]
        mass = [None] * n
        rad = [None] * n
        mass[pm] = 13
        rad[pr] = 2
        al = [v2000_atom_line("C", (float(a), 0.0, 0.0)) for a in range(n)]
        bl = [v2000_bond_line(a + 1, a + 2, 1) for a in range(n - 1)]
        pl = [v2000_prop_line("RAD", [(pr + 1, 2)]), v2000_prop_line("ISO", [(pm + 1, 13)])]
        s = tucan_of(T()["read"](v2000_text(al, bl, pl)))
        c.note("labels_at", [pm + 1, pr + 1])
        c.note("tucan_tail", s[-40:])
        el, bonds, attrs, _ = ref_decode(s)
        mass2 = [attrs.get(i, {}).get("mass") for i in range(len(el))]
        rad2 = [attrs.get(i, {}).get("rad") for i in range(len(el))]
        cond, nphi = iso_condition(n, el, bonds, mass2, rad2, ["C"] * n, [(a, a + 1) for a in range(n - 1)], mass, rad)
        c.oblige("decoded-graph-isomorphic-to-the-molecule-in-the-file", cond)
    return body



def c07_star_many(**p):
    """A multi-attachment bond with many endpoints (two-digit ENDPTS count): atom 1 bonded to a star atom whose
    ENDPTS list names k of the other atoms, k chosen by the solver from a list around 9/10/11."""
    def body(c):
        shadows(c)
        n = 13
        k = (1, 2, 9, 10, 11, 12)[c.choice("k", 6)]
        atoms = [A3(a + 1, "C" if a else "Fe", (float(a), 0.0, 0.0), []) for a in range(n)] + [A3(n + 1, "*", (0.0, 0.0, 0.0), [])]
        members = list(range(1, 1 + k))
        bt = c.int("bt_star", 1, 10)
        star_first = c.flag("star_first")
        b = B3(1, bt, n + 1 if star_first else 1, 1 if star_first else n + 1, endpts=[m + 1 for m in members], attach=("ANY", "ALL")[c.choice("attach", 2)])
        ring = [B3(i + 2, 1, i + 2, i + 3) for i in range(n - 2)]
        text = v3000_text(atoms, [b] + ring)
        g = T()["read"](text)
        c.note("endpoints", k)
        want = {(0, m): bt for m in members}
        want.update({(i + 1, i + 2): 1 for i in range(n - 2)})
        c.oblige("one-node-per-non-star-atom", g.number_of_nodes() == n)
        check_bonds(c, g, want)
    return body


def c01_reader_big(**p):
    """Three-digit atom numbers in V2000 bond lines: a 120-atom chain (one 13C label) written with every bond
    as 'i i+1', as 'i+1 i', and with the atom lines reversed; all renderings must give the same string."""
    n = p.get("n", 120)

    def body(c):
        variant = c.choice("variant", 3)
        lab = (3, 99, 100, 118)[c.choice("label_at", 4)]

        def render(order, flip):
            pos = {a: i + 1 for i, a in enumerate(order)}
            al = [v2000_atom_line("C", (float(i), 0.0, 0.0)) for i in range(n)]
            bl = [v2000_bond_line(pos[a + 1] if flip else pos[a], pos[a] if flip else pos[a + 1], 1) for a in range(n - 1)]
            return v2000_text(al, bl, [v2000_prop_line("ISO", [(pos[lab], 13)])])
        t1 = render(list(range(n)), False)
        t2 = render(list(range(n)), True) if variant == 0 else (render(list(reversed(range(n))), False) if variant == 1 else render(list(reversed(range(n))), True))
        read = T()["read"]
        s1, s2 = tucan_of(read(t1)), tucan_of(read(t2))
        c.note("variant", ["bonds written i+1 i", "atom lines reversed", "both"][variant])
        c.oblige("strings-equal", s1 == s2, [s1[-30:], s2[-30:]])
    return body



def c08_plus(**p):
    """Explicitly signed positive values in the three-character V2000 fields ('+13', ' +2', ' +1'), which an I3
    reader accepts: same molecule as the unsigned rendering and as V3000."""
    def body(c):
        k = c.choice("which", 4)
        iso, rad, chg = "  13", "   2", "   1"
        if k == 1:
            iso = " +13"
        elif k == 2:
            rad = "  +2"
        elif k == 3:
            chg = "  +1"
        al = [v2000_atom_line("C", (0.0, 0.0, 0.0)), v2000_atom_line("O", (1.0, 0.0, 0.0))]
        pl = [f"M  CHG  1   2{chg}", f"M  RAD  1   1{rad}", f"M  ISO  1   1{iso}"]
        t2 = v2000_text(al, [v2000_bond_line(1, 2, 1)], pl)
        t3 = v3000_text([A3(1, "C", (0.0, 0.0, 0.0), [("RAD", 2), ("MASS", 13)]), A3(2, "O", (1.0, 0.0, 0.0), [("CHG", 1)])], [B3(1, 1, 1, 2)])
        read = T()["read"]
        g2, g3 = read(t2), read(t3)
        key = lambda g: [(d.get("element_symbol"), d.get("chg", 0), d.get("rad", 0), d.get("mass", 0)) for _, d in g.nodes(data=True)]
        c.note("v2000", t2)
        c.oblige("same-atoms-as-v3000", key(g2) == key(g3), [key(g2), key(g3)])
        c.oblige("same-tucan-string", tucan_of(g2) == tucan_of(g3))
    return body

"""Regenerate MANIFEST.json from the per-property table below."""
import json

BASE_OFF = "cd /repo && /venv/bin/python -m pytest -ra -q -p no:cacheprovider --timeout=900 --continue-on-collection-errors"
E1 = "dynamic symbolic execution of the real Python code on z3-backed proxy values (symx), exhaustive DFS over solver-decided branches, validity query per path, concrete replay per path"
CHECKS = {
 "C01": ("E1 symx", E1 + "; obligation: string equality of two listings", "§6 C01"),
 "C02": ("E1 symx + REF-DECODER + REF-ISO", E1 + "; obligation: independent decoder is a left inverse up to isomorphism; near-miss collision queries", "§6 C02"),
 "C04": ("E1 symx", E1 + "; obligation: canonical labelled graphs of two listings equal", "§6 C04"),
 "C03": ("E1 symx (token lift) + REF-ISO", E1 + "; numerals lifted to symbols through the real ANTLR parse tree; obligations: parsed graph isomorphic to the molecule, fixed point", "§6 C03"),
 "C05": ("E1 symx + REF-GRAMMAR/LAYOUT/HILL + E3 atnre", E1 + "; emitted segment string judged by an independent grammar/layout validator; validator tied to the parser automaton by z3 regex inclusion", "§6 C05"),
 "C06": ("E1 symx + REF-V3000/V2000", E1 + "; two renderings differing in symbolic non-identity data through the real reader and pipeline; obligation: strings equal", "§6 C06"),
 "C09": ("E1 symx (incl. SymStr) + E2 CrossHair + REF-V3000-READER", E1 + "; graph_to_molfile -> reader round trip with symbolic attributes; the real wrap/splice functions on a line of symbolic length and content (SymStr, LIA+UF); CrossHair (z3) on the same kernels with a symbolic str", "§6 C09, §12.2"),
 "C10": ("E3 atnre + E1 symx (token lift) + REF-DECODER", "z3 regular-expression language inclusion (both directions, unbounded length) between the generated parser's ATN (state elimination) and the EBNF transcription; " + E1 + " with all numerals symbolic", "§6 C10"),
 "C11": ("E1 symx (token lift) + REF-GRAMMAR", E1 + "; solver-chosen respelling of the canonical string through the real parser; obligations: same normal form, idempotent", "§6 C11"),
 "C07": ("E1 symx (incl. SymStr) + REF-V3000", E1 + "; REF-V3000 renderings with symbolic fields through the real reader; continuation lemma on a line of symbolic length with symbolic split positions; obligation: graph equals the stated molecule attribute for attribute", "§6 C07, §12.2"),
 "C08": ("E1 symx + REF-V2000 + REF-V3000", E1 + "; V2000 and V3000 renderings of one abstract molecule through the real reader; obligations: both graphs equal the molecule, strings equal", "§6 C08"),
 "C12": ("E1 symx", E1 + "; obligations: attribute terms carried, input snapshots unchanged, repeat calls equal", "§6 C12"),
 "C13": ("E1 symx + REF-ISO", E1 + "; obligations: classes label-independent, equitable, closed under colour-preserving automorphisms", "§6 C13"),
 "C15": ("E1 symx + growth monitor + scaled replay", E1 + " (small molecules); stack-depth growth extrapolation with one real scaled run per witness family", "§6 C15"),
 "C16": ("E1 symx + shuffle stub", E1 + "; random.shuffle outcome symbolic (all n! permutations), retry loop unwound to a stated depth", "§6 C16"),
}
TEXT = {
 "C01": "Bounded model checking by symbolic execution: every labelled graph up to the stated size, every label placement, all integer label values (decided by z3, not sampled), every generator relisting. Right level because the property quantifies over all molecules and relabelings and the interesting cases (partially labelled orbits) are rare.",
 "C02": "Bounded: for every molecule of the strata and all label values the emitted string decodes (independent reader) to a graph provably isomorphic to the input, hence no two non-isomorphic molecules of the strata share a string; plus direct collision queries on near-miss pairs.",
 "C04": "Bounded: for every molecule of the strata, all label values and every generator relisting the two canonical graphs are equal node for node and edge for edge.",
 "C03": "Bounded: for every molecule of the strata and all label values the real parser reconstructs an isomorphic molecule from the emitted string and the pipeline reproduces the string.",
 "C05": "Bounded: every emitted string of the strata (graph level, reader level with explicit zeros, all 1-/2-element formulas over the 118 symbols) passes an independent grammar+layout validator with all values provably >= 1; the validator's grammar equals the parser's automaton (unbounded length).",
 "C06": "Bounded: for every molecule of the strata, all values of charges / bond types / file indices / atom-atom mapping and each listed kind of non-identity change, both renderings give the same string.",
 "C09": "L1 by CrossHair for every line up to the stated length; L2/L3 bounded by symx for all attribute values in the format's ranges; exact-length sweep as solver-enumerated integration tests.",
 "C10": "Syntax: language equality with no length bound (solver verdict, second solver agrees). Semantics: bounded skeletons with every numeral symbolic. One-token edits: solver-seeded differential testing, stated as such.",
 "C11": "Bounded: for every molecule of the strata, all attribute values and each listed respelling kind, normalisation gives the canonical string and is idempotent.",
 "C07": "Bounded: every rendering choice of the stated families (property subsets/orders, extra keyword, index assignment, file order, D/T, star atoms, blank runs, continuation column) with all numeric field values symbolic; the reader's graph equals the stated molecule.",
 "C08": "Bounded: every encoding choice (charge code / property lines / stale codes / groupings / group orders / unrelated lines / atom lists / D,T with ISO) with all property-line values symbolic through the fixed-width fields; V2000 and V3000 graphs equal the abstract molecule and the strings agree.",
 "C12": "Bounded: for every molecule of the strata with symbolic charges/bond types, canonicalization is a bijective renaming carrying every attribute term; inputs are unchanged; call histories of length <= 3 repeat.",
 "C13": "Bounded: classes equal across relistings, equitable (solver proves invariant codes equal within a class) and no colour-preserving skeleton automorphism separates a class.",
 "C15": "Bounded for small molecules (no exception on any path, all label values). For sizes in the thousands: measured stack-depth growth plus scaled real runs — an argument with replay, stated as such.",
 "C16": "Bounded: for every graph of the strata and every shuffle outcome (all n! permutations, retries to a stated depth) the helper's result is a faithful relabelled copy.",
}
NOTE = "Trusted: z3 5.1 (LIA/UF/regex; a sample of end-of-path queries and the grammar inclusions are re-decided by cvc5 1.0.3), CPython, the symx engine modulo its per-path concrete cross-check (every path model is replayed on plain ints; disagreement = engine divergence, reported), reference artefacts under /verif/ref (self-tested). networkx and igraph are executed, not modelled. Nothing is claimed outside the bounds echoed in the evidence file."
NA = [
 {"property_id": "C14", "reason": "Thread schedules, call histories through ANTLR's class-level DFA/prediction-context caches and the interpreter hash seed range over CPython/ANTLR runtime state that no solver-based engine available here encodes; deciding it needs process-level differential testing and a concurrency tester (another technique family). See DESIGN.md §6 C14."},
]

def build(claimed, na_extra):
    checks = []
    for pid in claimed:
        eng, tech, ref = CHECKS[pid]
        checks.append({
            "property_id": pid,
            "quick_cmd": f"./check {pid} --tier quick",
            "thorough_cmd": f"./check {pid} --tier thorough",
            "evidence_file": f"/verif/evidence/{pid}.json",
            "replay_cmd_template": f"./check {pid} --replay {{path}}",
            "engine": eng,
            "level_claimed": {"category": "model_checking", "text": TEXT[pid], "design_ref": ref},
            "level_note": NOTE,
            "technique": tech,
        })
    return {
        "version": 1,
        "setup_cmd": "./setup.sh",
        "hooks": {"guard": "TUCAN_VERIF", "enable": "no source hooks are used: all instrumentation is external (proxy values and module-attribute shadows installed by the harness in its own process); the guard name is reserved and unused",
                  "baseline_off_cmd": BASE_OFF, "source_commits": [], "add_only": True},
        "engines": [
            {"name": "symx", "path": "/verif/symx", "serves_properties": [p for p in claimed], "kind_free_text": "dynamic symbolic execution (concolic DFS) of the real Python code on z3-backed SymInt/SymBool proxies"},
            {"name": "atnre", "path": "/verif/atnre", "serves_properties": ["C10", "C05"], "kind_free_text": "ANTLR ATN -> z3 regular expression by state elimination; language inclusion by z3's regex theory, cvc5 second opinion"},
            {"name": "kernels", "path": "/verif/kernels", "serves_properties": ["C09"], "kind_free_text": "CrossHair (z3) on string kernels of the molfile writer/reader with a symbolic str"},
            {"name": "symstr", "path": "/verif/symx/symstr.py", "serves_properties": ["C09", "C07"], "kind_free_text": "symbolic strings of symbolic length (rope over an uninterpreted character function, LIA+UF) through the real wrap/splice functions"},
        ],
        "checks": checks,
        "not_applicable": NA + na_extra,
        "notes": "All checks: ./check <id> --tier quick|thorough; VERIF_REPO overrides the tree under test (default /repo). Exit 0 held / 1 VIOLATION (replayed in a fresh interpreter first) / 2 machinery failure.",
    }

if __name__ == "__main__":
    import sys
    claimed = [p for p in sorted(CHECKS)]
    pending = []
    na_extra = [{"property_id": p, "reason": "check under construction in this round; not yet claimed"} for p in pending]
    json.dump(build(claimed, na_extra), open("/verif/MANIFEST.json", "w"), indent=1)
    print("claimed", claimed, "pending", pending)

"""Re-run checks against a filed seeded change and merge the result into its meta.json.

  python3 tools_seedrecheck.py <seed-id> <check> [<check> ...]
(scratch worktree of /repo HEAD + seeded/<id>/patch.diff, checks run with VERIF_REPO=<scratch>, worktree removed)"""
import json
import os
import subprocess
import sys
import tempfile

VERIF = os.path.dirname(os.path.abspath(__file__))
sys.path.insert(0, VERIF)
from tools_seed import run_checks


def main():
    sid, checks = sys.argv[1], sys.argv[2:]
    mp = os.path.join(VERIF, "seeded", sid, "meta.json")
    meta = json.load(open(mp))
    d = tempfile.mkdtemp(prefix="seedre", dir="/tmp")
    os.rmdir(d)
    subprocess.run(["git", "-C", "/repo", "worktree", "add", "-q", "--detach", d, "HEAD"], check=True)
    try:
        subprocess.run(["git", "-C", d, "apply", os.path.join(VERIF, "seeded", sid, "patch.diff")], check=True)
        res = run_checks(d, checks)
    finally:
        subprocess.run(["git", "-C", "/repo", "worktree", "remove", "--force", d])
    if meta.get("checks") and "first_evaluation" not in meta:
        meta["first_evaluation"] = {p: {"exit": r["exit"]} for p, r in meta["checks"].items()}
    meta.setdefault("checks", {}).update(res)
    meta["caught_by"] = [p for p, r in meta["checks"].items() if r["exit"] == 1]
    meta["ran"] = meta.get("ran", "") + f"; tools_seedrecheck.py {sid} {' '.join(checks)}"
    json.dump(meta, open(mp, "w"), indent=1)
    print("CAUGHT-BY", meta["caught_by"])


if __name__ == "__main__":
    main()

"""Print the seeded-change table for DESIGN.md from /verif/seeded/*/meta.json and the summaries below."""
import glob
import json
import os

SUMMARY = {
 "C01-1": "assign_canonical_labels builds igraph from m.edges() by label but colours/names by iteration position; needs numbering != listing order and a symmetric molecule (prism/cubane)",
 "C01-2": "graph_from_molecule numbers nodes by listing order but maps bond endpoints through sorted(atom_attrs); needs atoms listed in non-ascending index order",
 "C01-3": "same two-site slip in graph_from_molecule (round 2); V3000 file with atom lines out of index order",
 "C01-4": "V2000 M  CHG/RAD/ISO table-driven loop assigns instead of extends: a second line of the same kind replaces the first (> 8 entries or one entry per line)",
 "C02-1": "serialize_molecule writes node attributes from the graph before the final sort; label lands on another atom of the same element (13CH3-CN vs CH3-13CN collide)",
 "C02-2": "_write_node_attributes collects per attribute into one dict: rad overwrites mass on an atom carrying both",
 "C02-3": "dict comprehension keyed by label in _write_node_attributes drops mass when rad is present on the same atom",
 "C02-4": "sort_molecule_by_attribute rebuilds the graph with node data under old labels: mass/rad detached from the edges whenever the sort is not the identity (15N-14N-O vs 14N-15N-O)",
 "C03-1": "attribute blocks written with the pre-sort numbering (CH2D-OH puts the deuterium on the oxygen's hydrogen)",
 "C03-2": "attribute writer keeps one attribute per atom (13C methyl radical loses mass=13)",
 "C03-3": "partition numbers assigned by position (dict(enumerate(...))) instead of by node; needs iteration order != label order",
 "C03-4": "attribute block written from the graph before the sort (section-join rewrite)",
 "C04-1": "colours handed to bliss lined up by sorted label, vertices by listing order; needs numbering != listing order",
 "C04-2": "'plain molecule' fast path partitions by atomic number when no atom has a MASS — forgets radicals; radical twin atoms share a class",
 "C04-3": "partition numbers assigned by position instead of by label (dict(enumerate))",
 "C04-4": "is_canonical marker in G.graph never invalidated: canonicalize -> renumber with networkx -> canonicalize returns the stale numbering",
 "C05-1": "attribute blocks emitted mass-blocks first then rad-blocks: not in ascending index order when a radical-only atom precedes a mass atom",
 "C05-2": "sections joined with '/' only when non-empty: bond-less labelled molecule emits 'He/(1:mass=3)' (not a sentence)",
 "C05-3": "attribute blocks sorted as strings: (10:..)(11:..)(7:..) when labelled indices have different digit counts",
 "C05-4": "same non-empty-section join (round 2)",
 "C06-1": "V2000 _parse_atom_line writes the D/T mass into the module-level charge-code table: every later atom with that charge code gets mass 2/3 (history dependent)",
 "C06-2": "graph_from_molecule: nodes by listing order, bonds by sorted index (file indices not ascending)",
 "C06-3": "lru_cache on the V2000 atom-line parser: textually identical atom lines share one mutable dict (zero-coordinate files, M  ISO on one of them; also across files)",
 "C06-4": "V2000 property block scanned past 'M  END': M  ISO/RAD/CHG lines of a following SD record are applied to the first molecule",
 "C07-1": "D/T mass overridden by an explicit MASS=0 on the same atom line",
 "C07-2": "continuation join strips every trailing dash (rstrip('-')): 'CHG=--' + '1' reads as +1",
 "C07-3": "graph_from_molecule skips convert_node_labels_to_integers when max(index) == n-1: gapless non-ascending index permutation gives nodes not in file order",
 "C07-4": "rstrip('-') continuation join (round 2)",
 "C08-1": "supersede flag assigned per property line instead of latched: an M  ISO line after M  CHG/RAD leaves stale atom-block codes in force",
 "C08-2": "property lines indexed by tag in a dict: only the last line of each kind is parsed",
 "C08-3": "module-level charge-code table mutated by a charged D/T atom (persistent state)",
 "C08-4": "reset flag split: M  CHG only clears atom-block charges, M  RAD only radicals (stale code 4 survives an M  CHG line)",
 "C09-1": "writer rstrips the blank before the continuation dash: tokens fuse when the cut falls behind a token",
 "C09-2": "reader strips all trailing dashes: a cut right after a minus sign flips the sign",
 "C09-3": "rstrip('-')/removeprefix continuation join (round 2)",
 "C09-4": "writer numbers atoms by position while bonds use node labels; needs numbering != listing order (e.g. a canonicalized graph)",
 "C10-1": "bond index validation only for max(self._bonds): an out-of-range index in another tuple is accepted and networkx adds a node",
 "C10-2": "duplicate-attribute check via setdefault: a repeated attribute with the SAME value is accepted",
 "C10-3": "setdefault duplicate check (round 2)",
 "C10-4": "early return for an empty sum formula before index validation: '/(1-2)' accepted",
 "C11-1": "initial partition by INVARIANT_CODE only if some atom has a MASS: radical-only molecules depend on the spelling",
 "C11-2": "formula/attributes written from the pre-sort graph: norm(norm(s)) != norm(s) for a correct spelling of CH2D-CH2-OH",
 "C11-3": "attribute keys emitted in the order the parser stored them: (2:rad=3)(2:mass=13) normalises differently from (2:mass=13,rad=3)",
 "C11-4": "edge-count-0 shortcut skips relabelling: 'H2//(1:mass=2)' and its renumbering normalise differently",
 "C12-1": "ordered relabel helper indexes a positional list by atom label: bonds rewired when label != position",
 "C12-2": "refinement cache keyed on (invariant codes, edges) stores the whole refined graph: a later molecule with other charges/bond orders gets the first one's attributes",
 "C12-3": "stale 'explored' flags: a second serialize_molecule on the same object raises AssertionError",
 "C12-4": "single-atom shortcut returns m.copy(): a one-atom graph labelled k != 0 keeps label k",
 "C13-1": "attribute sequences collected 'for atom in sorted(m)' but written back in iteration order",
 "C13-2": "initial partition ignores radicals when no atom has a mass (reads invariant_code[1] only)",
 "C13-3": "dict(enumerate(partitions)) write-back (round 2)",
 "C13-4": "refinement skipped when get_number_of_partitions(initial) == 1 — which means TWO classes: single-element chains of >= 5 atoms get a non-equitable partition",
 "C15-1": "refinement capped at 1000 rounds then RuntimeError: chains of >= 2003 atoms",
 "C15-2": "symmetry number via igraph count_automorphisms: int() of > 4300 digits fails for >= 1559 identical isolated atoms",
 "C15-3": "refine_partitions made recursive again (one yield per round)",
 "C15-4": "stale 'explored' flags: second serialize on the same object / derived objects raises AssertionError",
 "C16-1": "retry loop compares set(m.edges) as oriented tuples: never retries when the argument's numbering != listing order",
 "C16-2": "'if random_seed:' — seed 0.0 silently skips seeding",
 "C16-3": "RNG state restored (setstate) before the retry loop: retries draw from the caller's unseeded state",
 "C16-4": "permuted graph built in the argument's iteration order, not label order; needs numbering != listing order",
}
SUMMARY.update({
 "C01-5": "assign_canonical_labels returns the identity when the graph has < 2 bonds: H-D, 16O18O, unbonded 35Cl/37Cl keep the input numbering",
 "C01-6": "V2000 property lines applied one at a time: each M  RAD/CHG line re-runs the supersede reset and wipes radicals set by an earlier M  RAD line (one entry per line, or > 8 radicals)",
 "C02-5": "edge list sorted as packed integers with the shift taken from the number of EDGES: labels overflow in multi-fragment molecules with few bonds (HCl + Na vs NaCl + H collide)",
 "C02-6": "V2000 table-driven property loop: a second M  ISO line replaces the first ((13C)H3D reads as CH3D)",
 "C03-5": "bliss called without vertex colours when there are exactly two classes (get_number_of_partitions returns the largest index): 14N-15N oscillates",
 "C03-6": "'discrete partition' shortcut reads labels from the UNREFINED partition: atoms that only refinement separates are merged by relabel_nodes",
 "C06-5": "M  CHG clears only charges, M  RAD only radicals: a superseded atom-block code 4 survives an M  CHG line",
 "C06-6": "skip-the-text-line logic for A/G entries also applied to single-line V entries: the line after a 'V  ' line is swallowed",
 "C07-5": "rstrip('-') continuation join (extract-constants refactor)",
 "C07-6": "atom-property scan stops (break instead of continue) at the first token without '=': CHG/RAD/MASS after RGROUPS=(2 1 2) or ATTCHORD=(...) are dropped",
 "C08-5": "single-pass merge with the clearing in an elif: a stale atom-block code on an atom that also has an entry of another kind is not cleared",
 "C08-6": "line after a 'V  ' entry swallowed",
 "C09-5": "rstrip('-')/removeprefix join in the reader",
 "C09-6": "writer lstrips the continuation remainder: a blank at payload column 72 is lost and two tokens fuse",
 "C10-5": "setdefault duplicate check: repeated attribute with the same value accepted",
 "C10-6": "lexer error listener calls unicodedata.name() without default: newline/tab/control/private-use characters raise ValueError instead of TucanParserException",
 "C11-5": "assign_canonical_labels returns the identity for graphs without bonds: 'H2//(1:mass=2)' and its renumbering normalise differently",
 "C11-6": "new mass >= atomic number check looks the element up in formula order instead of atomic-number order: valid respellings of CH3D are rejected",
 "C15-5": "unbonded atoms left out of the igraph call: molecules with >= 2 atoms and no bonds raise KeyError",
 "C15-6": "refinement capped at 1000 rounds (RuntimeError for chains >= 2003 atoms)",
})


SUMMARY.update({
 "C04-5": "attribute_sequence sorts neighbours with a key that ignores the radical state: neighbours differing only in rad keep the bond-listing order of the input",
 "C04-6": "fast path without bliss when n_atoms - n_partitions <= 2 — meant for one equivalent pair, also fires for two pairs (H-O-O-H): edge sets differ",
 "C05-5": "attribute blocks collected mass first, then rad: not in ascending index order",
 "C05-6": "tuples section treated as optional: bond-free labelled molecule emits 'H/(1:mass=2)'",
 "C12-5": "discrete fast path reads labels from the unrefined partition: atoms merged by relabel_nodes (needs no symmetry and >= 1 refinement round)",
 "C12-6": "memoised canonicalization keyed on (invariant codes, edges) returns the first molecule's charges/coordinates/bond types",
 "C13-5": "partitioning rewritten over m.edges: atoms without bonds keep partition 0 and share a class with unrelated atoms",
 "C13-6": "neighbour lists cached in m.graph survive copy()/relabel_nodes: a renumbered canonical graph is partitioned with the old neighbour lists",
 "C16-5": "rng passed as a parameter defaulting to the random module; the retry call omits it and draws from the unseeded global generator",
 "C16-6": "enforcement by derangement instead of comparing edge sets: a fixed-point-free automorphism (H-O-O-H) returns the same edge set",
})


SUMMARY.update({
 "C01-7": "V3000 reader numbers atoms by listing position (enumerate) while bonds use the written indices: atom lines not listed as 1..n give another molecule",
 "C01-8": "V2000 bond line parsed with split(): ' 99100  1' (second endpoint >= 100) becomes one token and raises",
 "C02-7": "shared range check reused in the serializer: rad >= 4 silently left out of the string (rad=4 and rad=5 collide with no radical)",
 "C02-8": "V2000 property entries: atom number read from 2 instead of 3 columns — labels on atoms >= 101 land on atom n mod 100",
 "C03-7": "mass plausibility check with <= instead of <: protium written with mass=1 is rejected by the parser",
 "C03-8": "parser guard: sum formulas with more than 999 atoms rejected",
 "C06-7": "ENDPTS count parsed as a single digit: a star bond with >= 10 endpoints is silently ignored (really a C07 violation: caught by C07's star job, not by C06, whose renderings do not vary the star encoding)",
 "C06-8": "bond-type filter range(1, 10): V3000 bonds of type 10 are dropped",
 "C07-7": "regular end of a star bond tested with 'if not index': file atom 1 (internal 0) is taken for 'no regular end' and a valid file is rejected",
 "C07-8": "early return for D/T atom lines skips CHG/RAD",
 "C08-7": "M  CHG/RAD supersede only the atoms they name: a stale code on an unnamed atom survives",
 "C08-8": "V2000 counts line parsed with split(): '101100' when atoms and bonds both >= 100",
 "C09-7": "writer avoids ending a chunk in '-': cuts at 70 but continues at 71 — the minus sign is dropped",
 "C09-8": "charge range written as range(-15, 15): CHG=15 is not written",
 "C10-7": "colour table padded one entry short; ELEMENT_ATTRS built with zip(): Og vanishes from the table and 'Og/' raises KeyError",
 "C10-8": "mass plausibility check rejects grammar-valid sentences (mass < atomic number)",
 "C11-7": "attribute keys written in the order the parser stored them",
 "C11-8": "serializer writes rad only if in (1,2,3): rad > 3 breaks idempotence",
 "C15-7": "_assign_final_labels recurses once per fragment: RecursionError from ~990 components",
 "C15-8": "V2000 counts line split() (reader-level crash; outside C15's scope of canonicalize/serialize/parse — caught by C08's 300/999-atom job)",
})


SUMMARY.update({
 "C04-7": "invariant code treats mass == 1 on hydrogen as absent while the attribute stays and is serialized: a 1H label among equivalent hydrogens gets a listing-dependent number",
 "C05-7": "Hill order only when the carbon count is > 1: 'CCl3H', 'Br4C' for exactly one carbon",
 "C05-8": "one block per property: (6:mass=13)(6:rad=2) instead of (6:mass=13,rad=2)",
 "C12-7": "canonical graph rebuilt with add_weighted_edges_from: bonds without bond_type gain bond_type 1, other bond attributes are lost",
 "C12-8": "initial partitioning done in place (copy=False): the caller's graph gets its partition attribute overwritten",
 "C13-7": "hydrogens skipped as neighbours during refinement: with a bridging hydrogen two heavy atoms that differ only behind it share a class (Na-H-F + Na-H-Cl)",
 "C13-8": "refinement stops when the number of heavy-atom classes is unchanged (Li-H-Be-F + Li-H-Be-Cl)",
 "C16-7": "completeness tested per fragment: two HCl molecules are 'complete', no enforcement, same edge set returned",
 "C16-8": "retry path re-shuffles the rejected candidate without re-sorting: atoms not in label order after a retry",
})


SUMMARY.update({
 "C01-9": "V2000 merge loop 'for atom_index in range(len(atom_attrs) - 1)': property-line labels on the LAST atom are dropped",
 "C01-10": "V3000 bond indices validated against the COUNTS value instead of the declared indices: a numbering with gaps is rejected",
 "C02-9": "tolerant _to_int regex: explicitly plus-signed values ('+13', ' +2') read as 0 (caught by C08's plus-signed job, not by C02's own legs)",
 "C02-10": "atom symbol slice [31:33]: a two-letter symbol starting in the second column of the field (' Cl') loses its second letter — NOT CAUGHT: right-aligned symbols are deliberately outside the rendering domain (see text)",
 "C03-9": "sort_molecule_by_attribute rebuilds the graph: atoms under new labels, bonds copied under old labels",
 "C03-10": "sort_molecule_by_attribute with relabel_nodes(copy=False): any non-identity permutation raises NetworkXUnfeasible",
 "C06-9": "ENDPTS recognised only as the first keyword of the bond line (a C07 matter: caught by C07's star jobs with a keyword in front of ENDPTS)",
 "C06-10": "V2000 property block offset takes the Stext count from the chiral-flag column: chiral flag 1 skips the first two property lines",
 "C07-9": "ENDPTS regex applied with .match() to the properties tail: any property in front of ENDPTS hides it",
 "C07-10": "operator precedence in a merged dict expression: only the first non-zero of CHG/MASS/RAD is kept",
 "C08-9": "chiral flag read as Stext count",
 "C08-10": "explicit 0 entries survive when the atom also has a non-zero entry of another kind (rad=0 next to mass=15)",
 "C09-9": "coordinates >= 1e16 written with .6e (7 significant digits)",
 "C09-10": "wrap behind the last blank searched up to column 72 instead of 71: an 81-character physical line",
 "C10-9": "regex fast path in front of ANTLR checks Hill order non-strictly: 'HH/(1-2)', 'CC/' accepted",
 "C10-10": "self-bond test with 'is' instead of '==': (i-i) accepted for i >= 257",
 "C11-9": "attribute_sequence neighbour sort key ignores the radical: neighbours differing only in rad keep adjacency order",
 "C11-10": "sort_molecule_by_attribute maps edges with the inverse permutation: norm(s) denotes another molecule when the in-element permutation has a 3-cycle",
 "C15-9": "symmetry number via count_automorphisms: int() of > 4300 digits",
 "C15-10": "every refinement step kept alive until convergence: memory O(rounds x atoms), 2.3 GB for a 2600-atom chain",
})

# round 8
SUMMARY.update({
 "C03-11": "node attributes written from the graph before the final sort (m_labeled variable slip); 13CH3-CH2-OH puts the label on the other carbon",
 "C03-12": "refine_partitions turned back into a recursive generator: RecursionError for unbranched chains of >= ~2000 atoms (really a C15 violation; caught by C15's stack-growth obligation and scaled replay)",
 "C04-8": "V3000 reader numbers atoms with enumerate() while bonds use the written indices: atom lines out of index order give another molecule (a reader change: caught by C01, C06, C07, not by the graph-level C04)",
 "C04-9": "attribute_sequence sorts neighbour invariant codes by (Z, mass) only: neighbours that differ in radical state stay in bond-listing order, classes depend on the listing",
 "C05-9": "sections joined with '/' only when non-empty (third independent rediscovery): bond-less labelled molecule emits 'He/(1:mass=3)'",
 "C05-10": "V2000 merge: 'any(attrs.values())' per atom instead of per value: an explicit zero in one property line next to a non-zero entry in another leaks rad=0 / mass=0 into the string",
 "C09-11": "continuation join rstrip('-') (fourth rediscovery): cut right after a minus sign flips the sign",
 "C09-12": "coordinates >= 1e16 written with '{:.15e}' (16 significant digits): values needing 17 digits read back an ulp off",
 "C10-11": "duplicate-attribute check via setdefault (third rediscovery): a repeated attribute with the same value is accepted",
 "C10-12": "early return for an empty sum formula before index validation (second rediscovery): '/(1-2)' accepted",
 "C12-9": "canonicalize_molecule cache keyed on (atom order, invariant codes, edges) storing the whole canonical graph: a second graph with other charges/bond types/coordinates gets the first one's (multi-step)",
 "C13-9": "refinement loop bounded by the size of the largest initial class: periodic chain F-(S-Se-Te)x, x >= 6 (19 atoms) returns an unstable partition — missed at first; the curated molecule F(SSeTe)6 was added",
 "C13-10": "canonicalize_molecule continues from incoming non-zero PARTITION values: canonicalize, delete atoms, canonicalize again keeps the stale (too fine) classes — missed at first; the `recanon-edited` description was added",
 "C16-9": "local Random instance passed to the first shuffle only; the retry loop draws from the unseeded global generator (water, seed 1/64)",
 "C16-10": "lru_cache on permute_molecule (key = graph object identity + seed): permute, edit the graph, permute again returns the stale result — missed at first; the history leg `edited-argument-is-permuted-afresh` was added",
})
# round 9
SUMMARY.update({
 "C01-11": "V2000 property lines: 'if i > 0 and atom_index <= 0: continue' (meant to skip blank padding slots) drops an entry for atom 1 that is not in the first slot of its line: needs unsorted entries",
 "C02-11": "_write_node_attributes single pass: assignment instead of append, rad overwrites mass on an atom carrying both (rediscovery of C02-2)",
 "C06-11": "V3000 _parse_atom_attributes unrolled into guard clauses with 'break' for 'continue': an explicit CHG=0 drops a later MASS/RAD on the same atom line",
 "C07-11": "graph_from_molecule: convert_node_labels_to_integers(ordering='sorted'): atoms renumbered by ascending file index instead of file order (non-ascending V3000 indices)",
 "C07-12": "continuation join rstrip('-') (fifth rediscovery)",
 "C08-11": "supersede reset folded into the merge pass under an elif: an atom named in some property line (M  ISO, explicit zero) keeps its stale atom-block charge code although M  CHG/RAD lines are present",
 "C15-11": "refinement loop with a 'safety' bound n_atoms - n_initial_partitions that forgets the final confirming round: AssertionError for hydrogen-free F-C-C-C-C (every atom ends alone, one split per round)",
})

BREAKS = {"C03-12": "C15", "C04-8": "C01 C06 C07", "C02-9": "C08", "C06-9": "C07", "C06-7": "C07", "C15-8": "C08"}


def main():
    rows = []
    for d in sorted(glob.glob("/verif/seeded/*")):
        m = os.path.join(d, "meta.json")
        if not os.path.exists(m):
            continue
        meta = json.load(open(m))
        sid = meta["id"]
        caught = ", ".join(meta.get("caught_by", [])) or "—"
        ob = ""
        for p, r in meta.get("checks", {}).items():
            if r.get("first"):
                ob = r["first"][0].split(" in ")[0].replace("failing obligation ", "")
                job = r["first"][0].split(" in ")[1].split(":")[0] if " in " in r["first"][0] else ""
                ob = f"`{ob}` in {job}"
                break
        rows.append(f"| {sid} | {SUMMARY.get(sid, '')} | {caught} | {ob} |")
    print("| id | change and what it needs to manifest | caught by (own check run) | first failing obligation |")
    print("|---|---|---|---|")
    print("\n".join(rows))
    # write summaries into meta.json
    for d in sorted(glob.glob("/verif/seeded/*")):
        m = os.path.join(d, "meta.json")
        if os.path.exists(m):
            meta = json.load(open(m))
            meta["breaks"] = BREAKS.get(meta["id"], meta["property"])
            meta["needs_to_manifest"] = SUMMARY.get(meta["id"], "")
            json.dump(meta, open(m, "w"), indent=1)


if __name__ == "__main__":
    main()

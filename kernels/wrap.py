"""E2 kernels: wrap (writer) and splice (reader) of long V3000 lines on a symbolic str.

Checked with:  crosshair check --report_all --per_condition_timeout T kernels/wrap.py:<line>
The functions under test are imported from /repo (PYTHONPATH puts VERIF_REPO first)."""
from tucan.io.molfile_writer import _add_v30_line
from tucan.io.molfile_v3000_reader import _concat_lines_with_dash

import os
BOUND = int(os.environ.get("VERIF_WRAP_BOUND", "150"))
SPLIT_BOUND = int(os.environ.get("VERIF_SPLIT_BOUND", "80"))


def splice_after_wrap(line: str) -> bool:
    """
    pre: len(line) <= BOUND
    pre: not line.endswith("-")
    post: _
    """
    lines: list = []
    _add_v30_line(lines, line)
    if any(len(p) > 79 for p in lines):           # 80 characters including the newline
        return False
    if not all(p.startswith("M  V30 ") for p in lines):
        return False
    # a following line must be left alone
    return _concat_lines_with_dash(lines + ["M  V30 END ATOM"]) == ["M  V30 " + line, "M  V30 END ATOM"]


def splice_after_wrap_twin(line: str) -> bool:
    """Reachability twin: must be refuted.
    pre: len(line) <= BOUND
    pre: not line.endswith("-")
    post: not _
    """
    lines: list = []
    _add_v30_line(lines, line)
    return _concat_lines_with_dash(lines + ["M  V30 END ATOM"]) == ["M  V30 " + line, "M  V30 END ATOM"]


def splice_any_split(left: str, right: str) -> bool:
    """A continuation at any split point: 'M  V30 <left>-' + 'M  V30 <right>' reads as left+right.
    pre: len(left) + len(right) <= SPLIT_BOUND
    pre: not (left + right).endswith("-")
    post: _
    """
    return _concat_lines_with_dash(["M  V30 " + left + "-", "M  V30 " + right, "M  END"]) == ["M  V30 " + left + right, "M  END"]


def splice_at(line: str, k: int) -> bool:
    """The same with one string and a split position.
    pre: len(line) <= SPLIT_BOUND
    pre: 0 <= k <= len(line)
    pre: not line.endswith("-")
    post: _
    """
    return _concat_lines_with_dash(["M  V30 " + line[:k] + "-", "M  V30 " + line[k:], "M  END"]) == ["M  V30 " + line, "M  END"]

"""E2 runner: CrossHair on the string kernels, one process per condition.

"Confirmed over all paths" -> holds within the length bound; a counterexample is re-run
concretely on the real functions before it is reported; anything else is inconclusive.
The reachability twin must be refuted."""
from __future__ import annotations

import ast
import json
import os
import re
import subprocess
import sys
import time
from concurrent.futures import ThreadPoolExecutor

VERIF = os.path.dirname(os.path.dirname(os.path.abspath(__file__)))


def _crosshair(fn, bound, timeout, repo):
    env = dict(os.environ, PYTHONPATH=f"{repo}:{VERIF}", VERIF_WRAP_BOUND=str(bound), VERIF_SPLIT_BOUND=str(bound))
    exe = os.path.join(os.path.dirname(sys.executable), "crosshair")
    t0 = time.time()
    try:
        r = subprocess.run([exe, "check", "--report_all", "--per_condition_timeout", str(timeout), f"kernels.wrap.{fn}"],
                           cwd=VERIF, env=env, capture_output=True, text=True, timeout=timeout * 3 + 60)
        out = r.stdout + r.stderr
    except subprocess.TimeoutExpired:
        out = "TIMEOUT"
    return out, time.time() - t0


def _replay(fn, out, repo):
    """Re-run a reported counterexample concretely.  -> (reproduces, call text)"""
    m = re.search(r"when calling (%s\(.*\))(?: \(which returns|$)" % fn, out, re.S)
    if not m:
        return None, None
    call = m.group(1)
    code = ("import sys; sys.path[:0]=[%r,%r]\nimport kernels.wrap as K\n"
            "try:\n    r = K.%s\nexcept Exception as e:\n    print('RAISED', type(e).__name__, e); sys.exit(1)\n"
            "print('RETURNED', r); sys.exit(0 if r else 1)\n") % (repo, VERIF, call)
    r = subprocess.run([sys.executable, "-c", code], capture_output=True, text=True, env=dict(os.environ, VERIF_WRAP_BOUND="100000", VERIF_SPLIT_BOUND="100000"))
    return r.returncode == 1, call


def kernel_obligations(repo, tier):
    thorough = tier == "thorough"
    conds = [("splice_after_wrap", 150 if thorough else 80, 400 if thorough else 100, False),
             ("splice_any_split", 20 if thorough else 10, 400 if thorough else 90, False),
             ("splice_after_wrap_twin", 80, 60, True)]
    with ThreadPoolExecutor(max_workers=len(conds)) as ex:
        res = list(ex.map(lambda c: _crosshair(c[0], c[1], c[2], repo), conds))
    obs = []
    for (fn, bound, timeout, twin), (out, dt) in zip(conds, res):
        detail = {"checker": f"crosshair check --report_all --per_condition_timeout {timeout} kernels.wrap.{fn}", "length_bound": bound,
                  "seconds": round(dt, 1), "output": out.strip()[-300:]}
        if twin:
            ok = True if "error:" in out else None
            detail["note"] = "reachability twin (postcondition negated): must be refuted"
            obs.append({"name": f"kernel/{fn}", "ok": ok, "detail": detail})
            continue
        if "Confirmed over all paths" in out:
            ok = True
        elif "error:" in out:
            rep, call = _replay(fn, out, repo)
            detail["counterexample"] = call
            detail["reproduces_concretely"] = rep
            ok = False if rep else None
        else:
            ok = None
        o = {"name": f"kernel/{fn}", "ok": ok, "detail": detail}
        if ok is False:
            path = os.path.join(VERIF, "evidence", "replays", f"C09-kernel-{fn}.json")
            os.makedirs(os.path.dirname(path), exist_ok=True)
            with open(path, "w") as f:
                json.dump({"property": "C09", "kind": "kernel", "function": fn, "call": detail["counterexample"]}, f, indent=1)
            o["replay"] = path
            o["values"] = {"call": detail["counterexample"]}
        obs.append(o)
    return obs

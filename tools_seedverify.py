"""Confirm a sub-agent's seeded change and file it under /verif/seeded/<id>/.

  python3 tools_seedverify.py <PID> <i> [check ...]
reads /tmp/seed/<PID>/SEED/patch<i>.diff, demo<i>.py, notes<i>.md; in a scratch worktree of /repo HEAD:
  demo without the change (must exit 0), apply, test suite (must pass), demo with the change (must fail);
then runs the named checks (default: the property's own) with VERIF_REPO=<scratch>; writes meta.json."""
import json
import os
import shutil
import subprocess
import sys
import tempfile
import time

VERIF = os.path.dirname(os.path.abspath(__file__))
sys.path.insert(0, VERIF)
from tools_seed import run_checks


def sh(cmd, cwd, env=None, timeout=1800):
    r = subprocess.run(cmd, cwd=cwd, env=env, capture_output=True, text=True, timeout=timeout, shell=isinstance(cmd, str))
    return r.returncode, (r.stdout + r.stderr)


def main():
    pid, i = sys.argv[1], sys.argv[2]
    checks = sys.argv[3:] or [pid]
    root = os.environ.get("SEED_ROOT", "/tmp/seed")
    src = f"{root}/{pid}/SEED"
    sid = f"{pid}-{int(i) + int(os.environ.get('SEED_OFFSET', '0'))}"
    dst = os.path.join(VERIF, "seeded", sid)
    os.makedirs(dst, exist_ok=True)
    shutil.copy(f"{src}/patch{i}.diff", f"{dst}/patch.diff")
    shutil.copy(f"{src}/demo{i}.py", f"{dst}/demo.py")
    if os.path.exists(f"{src}/notes{i}.md"):
        shutil.copy(f"{src}/notes{i}.md", f"{dst}/notes.md")
    d = tempfile.mkdtemp(prefix="seedver", dir="/tmp")
    os.rmdir(d)
    subprocess.run(["git", "-C", "/repo", "worktree", "add", "-q", "--detach", d, "HEAD"], check=True)
    meta = {"id": sid, "property": pid, "base_commit": subprocess.run(["git", "-C", "/repo", "rev-parse", "--short", "HEAD"], capture_output=True, text=True).stdout.strip()}
    try:
        env = dict(os.environ, PYTHONPATH=d)
        os.makedirs(f"{d}/SEED", exist_ok=True)
        shutil.copy(f"{dst}/demo.py", f"{d}/SEED/demo{i}.py")
        for extra in os.listdir(src):            # helper modules a demonstration imports (kept next to demo.py)
            if extra.endswith(".py") and not extra.startswith(("demo", "_")):
                shutil.copy(f"{src}/{extra}", f"{d}/SEED/{extra}")
                shutil.copy(f"{src}/{extra}", f"{dst}/{extra}")
        rc0, out0 = sh(["/venv/bin/python", f"SEED/demo{i}.py"], d, env)
        meta["demo_without_change_exit"] = rc0
        rca, outa = sh(["git", "apply", f"{dst}/patch.diff"], d)
        meta["patch_applies"] = rca == 0
        rct, outt = sh(["/venv/bin/python", "-m", "pytest", "-q", "-p", "no:cacheprovider", "--timeout=900", "-q", "-x"], d, env)
        meta["test_suite_with_change"] = outt.strip().splitlines()[-1] if outt.strip() else ""
        meta["test_suite_passes"] = rct == 0
        rc1, out1 = sh(["/venv/bin/python", f"SEED/demo{i}.py"], d, env)
        meta["demo_with_change_exit"] = rc1
        meta["demo_with_change_tail"] = out1.strip().splitlines()[-1][:300] if out1.strip() else ""
        meta["confirmed"] = bool(rc0 == 0 and rca == 0 and rct == 0 and rc1 != 0)
        print(json.dumps(meta, indent=1), flush=True)
        if meta["confirmed"]:
            res = run_checks(d, checks)
            meta["checks"] = res
            meta["caught_by"] = [p for p, r in res.items() if r["exit"] == 1]
    finally:
        subprocess.run(["git", "-C", "/repo", "worktree", "remove", "--force", d])
    meta["ran"] = f"tools_seedverify.py {pid} {i} {' '.join(checks)}"
    with open(f"{dst}/meta.json", "w") as f:
        json.dump(meta, f, indent=1)
    print("CAUGHT-BY", meta.get("caught_by"))


if __name__ == "__main__":
    main()

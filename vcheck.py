"""./check <property> [--tier quick|thorough] [--replay file]"""
import argparse
import importlib
import os
import sys
import time

HERE = os.path.dirname(os.path.abspath(__file__))


def main():
    ap = argparse.ArgumentParser()
    ap.add_argument("prop")
    ap.add_argument("--tier", default=None)
    ap.add_argument("--replay", default=None)
    a = ap.parse_args()
    sys.path.insert(0, HERE)
    repo = os.environ.get("VERIF_REPO", "/repo")
    sys.path.insert(0, repo)
    if a.replay:
        from symx.replay import main as rmain
        return rmain(a.replay)
    tier = a.tier or os.environ.get("VERIF_TIER") or "quick"
    mod = importlib.import_module(f"props.{a.prop}")
    try:
        return mod.main(tier)
    except Exception:
        import traceback
        traceback.print_exc()
        return 2


if __name__ == "__main__":
    sys.exit(main())

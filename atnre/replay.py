"""python -m atnre.replay <file>: real graph_from_tucan vs REF-DECODER on one recorded string. Exit 1 iff they differ."""
import json
import os
import sys


def main(path):
    repo = os.environ.get("VERIF_REPO", "/repo")
    sys.path.insert(0, repo)
    rec = json.load(open(path))
    text = rec["text"]
    import tucan.parser.parser as P
    from ref import tucan_ref
    try:
        g = P.graph_from_tucan(text)
        real = ["accepted", [g.nodes[k].get("element_symbol") for k in sorted(g.nodes)], sorted(list(sorted(e)) for e in g.edges()),
                {str(k): {a: g.nodes[k][a] for a in ("mass", "rad") if a in g.nodes[k]} for k in sorted(g.nodes) if any(a in g.nodes[k] for a in ("mass", "rad"))}]
    except P.TucanParserException:
        real = ["rejected"]
    except Exception as e:
        real = ["unrelated-error", type(e).__name__]
    try:
        el, bonds, attrs, _ = tucan_ref.decode(text)
        want = ["accepted", el, sorted(list(b) for b in bonds), {str(k): dict(v) for k, v in sorted(attrs.items())}]
    except tucan_ref.Reject as e:
        want = ["rejected"]
    print(json.dumps({"text": text, "real": real, "reference": want}, default=str)[:2000])
    if real != want:
        print(f"REPRODUCED property={rec.get('property')}")
        return 1
    print("NOT-REPRODUCED")
    return 0


if __name__ == "__main__":
    sys.exit(main(sys.argv[1]))

"""E3 obligations: the generated parser's automaton against the published EBNF.

Returns a list of extra-obligation dicts for symx.driver.run_check:
  grammar/impl-subset-of-ref, grammar/ref-subset-of-impl     (token strings of any length)
  lexer/<n token definitions equal>, lexer/numerals-disjoint
  lemma/numeral-uniformity                                   (needed by the token lift)
  runtime/model-vs-antlr                                     (solver-generated sentences and one-token edits on the real parser)
"""
from __future__ import annotations

import os
import re
import subprocess
import tempfile
import time

import z3

from atnre.atn2re import ParserRegex, ReBuilder, RuleCycle, tok_char, BASE

VERIF = os.path.dirname(os.path.dirname(os.path.abspath(__file__)))


def z3str(v):
    """Decode z3's escaped string value."""
    s = v.as_string()
    return re.sub(r"\\u\{([0-9a-fA-F]+)\}", lambda m: chr(int(m.group(1), 16)), s)


class Vocabulary:
    def __init__(self, parser_cls):
        self.lit = {}
        for i, n in enumerate(parser_cls.literalNames):
            if n != "<INVALID>":
                self.lit[n[1:-1]] = i
        self.lit["GREATER_THAN_NINE"] = parser_cls.symbolicNames.index("GREATER_THAN_NINE")
        self.lit["EOF"] = -1
        self.inv = {v: k for k, v in self.lit.items()}

    def char(self, name):
        return tok_char(self.lit[name])

    def text(self, w, gt9="10"):
        out = []
        for ch in w:
            name = self.inv.get(ord(ch) - BASE, "?")
            out.append("" if name == "EOF" else (gt9 if name == "GREATER_THAN_NINE" else name))
        return "".join(out)

    def names(self, w):
        return [self.inv.get(ord(ch) - BASE, "?") for ch in w]


def _query(a, b, timeout_ms=120000, maxlen=None):
    """Is there w in L(a) minus L(b)?  -> (verdict, witness, seconds, smt2)"""
    w = z3.String("w")
    s = z3.Solver()
    s.set("timeout", timeout_ms)
    s.add(z3.InRe(w, a), z3.Not(z3.InRe(w, b)))
    if maxlen is not None:
        s.add(z3.Length(w) <= maxlen)
    t0 = time.time()
    r = s.check()
    dt = time.time() - t0
    wit = z3str(s.model()[w]) if r == z3.sat else None
    return str(r), wit, dt, s.to_smt2()


def _shortest(a, b, wit):
    """Tighten the witness length."""
    best = wit
    for k in range(1, len(wit)):
        r, w2, _, _ = _query(a, b, 20000, k)
        if r == "sat":
            return w2
    return best


def _cvc5_second_opinion(smt2, expect, timeout=120):
    exe = "/usr/bin/cvc5"
    if not os.path.exists(exe):
        return "unavailable"
    with tempfile.NamedTemporaryFile("w", suffix=".smt2", delete=False, dir="/tmp") as f:
        f.write("(set-logic ALL)\n" + smt2)
        path = f.name
    try:
        r = subprocess.run([exe, "--strings-exp", f"--tlimit={timeout * 1000}", path], capture_output=True, text=True, timeout=timeout + 10)
        out = (r.stdout + r.stderr).strip().splitlines()
        if any("(error" in ln for ln in out):
            return "error: " + out[0][:100]
        return out[0] if out else "no-answer"
    except subprocess.TimeoutExpired:
        return "timeout"
    finally:
        os.unlink(path)


def grammar_obligations(repo, second_opinion=True, runtime_tests=True, thorough=False):
    import sys
    if repo not in sys.path:
        sys.path.insert(0, repo)
    from tucan.parser.tucanParser import tucanParser
    from tucan.parser.tucanLexer import tucanLexer
    import tucan.parser.parser as P
    from ref.tucan_grammar import build
    from ref import tucan_ref

    obs = []
    solver_s = 0.0
    voc = Vocabulary(tucanParser)

    # EBNF drift: the published grammar must still be the one that was transcribed
    frozen = open(os.path.join(VERIF, "ref", "tucan.ebnf.frozen")).read()
    current = open(os.path.join(repo, "tucan", "parser", "tucan.ebnf")).read()
    if frozen.split() != current.split():
        obs.append({"name": "grammar/published-ebnf-unchanged", "ok": None,
                    "detail": "tucan/parser/tucan.ebnf differs from the transcription source frozen in /verif/ref: the reference must be re-transcribed before the comparison means anything"})
        return obs, {"solver_s": 0.0}

    try:
        pr = ParserRegex(tucanParser.atn)
        R = {name: pr.rule(tucanParser.ruleNames.index(name)) for name in
             ("tucan", "node_index", "node_property_value", "count", "greater_than_zero", "greater_than_one")}
    except RuleCycle as e:
        obs.append({"name": "grammar/rule-call-graph-acyclic", "ok": None, "detail": f"recursive rule {e}: state elimination does not apply"})
        return obs, {"solver_s": 0.0}
    except NotImplementedError as e:
        obs.append({"name": "grammar/atn-transitions-supported", "ok": None, "detail": str(e)})
        return obs, {"solver_s": 0.0}
    ref = build(voc.char)

    def real_syntax_ok(text):
        try:
            P._prepare_parser(text).tucan()
            return True
        except P.TucanParserException:
            return False

    def semantic_differential(text):
        """Full outcome of the real graph_from_tucan vs REF-DECODER on a concrete string.
        -> None when they agree, else a description."""
        try:
            g = P.graph_from_tucan(text)
            real = ("accepted", [g.nodes[k].get("element_symbol") for k in sorted(g.nodes)], sorted(tuple(sorted(e)) for e in g.edges()),
                    {k: {a: g.nodes[k][a] for a in ("mass", "rad") if a in g.nodes[k]} for k in sorted(g.nodes) if any(a in g.nodes[k] for a in ("mass", "rad"))})
            if sorted(g.nodes) != list(range(g.number_of_nodes())):
                real = ("accepted-with-odd-node-labels",)
        except P.TucanParserException:
            real = ("rejected",)
        except Exception as e:
            return f"unrelated error {type(e).__name__}: {str(e)[:80]}"
        try:
            el, bonds, attrs, _ = tucan_ref.decode(text)
            want = ("accepted", el, sorted(bonds), {k: dict(v) for k, v in sorted(attrs.items())})
        except tucan_ref.Reject:
            want = ("rejected",)
        if real != want:
            return f"real {str(real)[:150]} vs reference {str(want)[:150]}"
        return None

    def ref_syntax_ok(text):
        try:
            tucan_ref.parse(text)
            return True
        except tucan_ref.Reject as e:
            return False

    # O1: language inclusion both ways, token strings of any length
    for name, a, b in (("grammar/impl-subset-of-ref", R["tucan"], ref["tucan"]), ("grammar/ref-subset-of-impl", ref["tucan"], R["tucan"])):
        verdict, wit, dt, smt2 = _query(a, b)
        solver_s += dt
        o = {"name": name, "detail": {"query": "exists w: w in L(A) and w not in L(B)", "verdict": verdict, "seconds": round(dt, 2), "bound": "no bound on |w|"}}
        if verdict == "unsat":
            o["ok"] = True
            if second_opinion:
                o["detail"]["cvc5"] = _cvc5_second_opinion(smt2, "unsat")
                if o["detail"]["cvc5"] == "sat":
                    o["ok"] = None
        elif verdict == "sat":
            wit = _shortest(a, b, wit)
            text = voc.text(wit)
            real, refv = real_syntax_ok(text), ref_syntax_ok(text)
            o["detail"].update(witness_tokens=voc.names(wit), witness_text=text, real_parser_accepts=real, reference_accepts=refv)
            if real != refv:
                o["ok"] = False
                o["values"] = {"text": text}
                path = os.path.join(VERIF, "evidence", "replays", f"C10-grammar-{abs(hash(text)) % 10**8}.json")
                os.makedirs(os.path.dirname(path), exist_ok=True)
                import json
                with open(path, "w") as f:
                    json.dump({"property": "C10", "kind": "grammar", "text": text, "real_parser_accepts": real, "reference_accepts": refv}, f, indent=1)
                o["replay"] = path
            else:
                o["ok"] = None        # our reading of the ATN disagrees with the runtime: inconclusive, never a TUCAN violation
        else:
            o["ok"] = None
        obs.append(o)

    # vacuity guard: deliberately wrong references must be refuted (sat)
    import ref.tucan_grammar as G
    orig = list(G.SLOTS_WITHOUT_CARBON)
    try:
        G.SLOTS_WITHOUT_CARBON = orig[:10] + [orig[11], orig[10]] + orig[12:]
        wrong = G.build(voc.char)["tucan"]
    finally:
        G.SLOTS_WITHOUT_CARBON = orig
    v1, wit1, dt1, _ = _query(R["tucan"], wrong, 60000)
    v2, wit2, dt2, _ = _query(G.build(voc.char, eof=False)["tucan"], R["tucan"], 60000)
    solver_s += dt1 + dt2
    obs.append({"name": "grammar/vacuity-twins", "ok": True if (v1 == "sat" and v2 == "sat") else None,
                "detail": {"swapped-slots-reference-refuted": v1, "witness": voc.text(wit1) if wit1 else None, "reference-without-EOF-refuted": v2,
                           "note": "the same queries against deliberately wrong references must be sat; otherwise the unsat verdicts above would be vacuous"}})

    # O3: numeral uniformity lemma
    lemma = []
    for rule, refname in (("node_index", "greater_than_zero"), ("node_property_value", "greater_than_zero"), ("count", "greater_than_one")):
        for a, b in ((R[rule], ref[refname]), (ref[refname], R[rule])):
            verdict, wit, dt, _ = _query(a, b, 30000)
            solver_s += dt
            lemma.append((rule, verdict))
    ok = all(v == "unsat" for _, v in lemma)
    obs.append({"name": "lemma/numeral-uniformity", "ok": True if ok else None,
                "detail": {"statement": "regex(node_index) = regex(node_property_value) = '1'|...|'9'|GREATER_THAN_NINE and regex(count) = '2'|...|GREATER_THAN_NINE: every numeral token of the class is interchangeable at these positions", "queries": lemma}})

    # O2: lexer token definitions, characters instead of token types
    latn = tucanLexer.atn
    lx = ParserRegex(latn, sym_char=chr)
    bad, n_tok = [], 0
    digit = z3.Range("0", "9")
    for ri, ttype in enumerate(latn.ruleToTokenType):
        n_tok += 1
        impl = lx.rule(ri)
        name = voc.inv.get(ttype)
        if name is None:
            bad.append((ttype, "token type without a literal in the parser vocabulary"))
            continue
        want = z3.Concat(z3.Range("1", "9"), z3.Plus(digit)) if name == "GREATER_THAN_NINE" else z3.Re(z3.StringVal(name))
        for a, b in ((impl, want), (want, impl)):
            verdict, wit, dt, _ = _query(a, b, 30000)
            solver_s += dt
            if verdict != "unsat":
                bad.append((name, verdict, wit))
    missing = sorted(set(voc.lit) - {"EOF"} - {voc.inv.get(t) for t in latn.ruleToTokenType})
    obs.append({"name": "lexer/token-definitions-equal", "ok": (True if not bad and not missing else None),
                "detail": {"tokens": n_tok, "mismatches": bad[:5], "missing": missing[:5], "note": "each token's character language equals the EBNF terminal; with ANTLR's maximal-munch rule this gives the reference tokenizer's tokenisation"}})

    # O6: model-to-runtime validation
    if runtime_tests:
        t0 = time.time()
        n_sent, n_edit, n_diff, disagreements, sem_fail = 0, 0, 0, [], []
        w = z3.String("w")
        base = []
        full = z3.Full(z3.ReSort(z3.StringSort()))
        probes = [n for n in voc.lit if n != "EOF"]
        if not thorough:
            probes = [n for n in probes if n in ("C", "H", "Cl", "Zr", "Ac", "Og", "He", "/", "(", ")", "-", ":", ",", "=", "mass", "rad", "1", "2", "9", "GREATER_THAN_NINE")]
        for name in probes:
            s = z3.Solver()
            s.set("timeout", 20000)
            s.add(z3.InRe(w, z3.Intersect(R["tucan"], z3.Concat(full, z3.Re(z3.StringVal(voc.char(name))), full))))
            r = s.check()
            if r == z3.sat:
                wit = z3str(s.model()[w])
                base.append(wit)
                text = voc.text(wit)
                n_sent += 1
                if not real_syntax_ok(text):
                    disagreements.append(("sentence-rejected-by-runtime", text))
        # every element symbol through the whole reader (the listener needs its attribute table, not only the grammar)
        from ref.elements import SYMBOLS_BY_Z
        for sym in SYMBOLS_BY_Z:
            for text in (f"{sym}/", f"{sym}2/(1-2)/(2:mass=300,rad=2)") + ((f"C{sym}/(1-2)",) if sym not in ("C", "H") else ()):
                diff = semantic_differential(text)
                n_diff += 1
                if diff is not None and len(sem_fail) < 5:
                    sem_fail.append((text, diff))
        # large indices and counts (identity vs equality of ints, multi-digit numerals)
        for N in (10, 99, 100, 256, 257, 300, 1000):
            for text in (f"C{N}/({N}-{N})", f"C{N}/({N - 1}-{N})({N}-{N - 1})/({N}:mass={N})({N - 1}:rad={N})", f"C{N}/(1-{N + 1})", f"C{N}//({N}:mass=1)({N}:mass=1)"):
                diff = semantic_differential(text)
                n_diff += 1
                if diff is not None and len(sem_fail) < 5:
                    sem_fail.append((text, diff))
        for wit in base:
            diff = semantic_differential(voc.text(wit))
            n_diff += 1
            if diff is not None and len(sem_fail) < 5:
                sem_fail.append((voc.text(wit), diff))
        # one-token edits of a few base sentences; membership decided by z3, outcome by the real parser
        alphabet = [voc.char(n) for n in ("C", "H", "Cl", "/", "(", ")", "-", ":", ",", "=", "mass", "rad", "1", "2", "GREATER_THAN_NINE")]
        seeds = sorted(set(base), key=len)[:(6 if thorough else 2)] + [
            "".join(voc.char(n) for n in ["C", "2", "H", "6", "O", "/", "(", "1", "-", "3", ")", "(", "2", "-", "3", ")", "/", "(", "3", ":", "mass", "=", "GREATER_THAN_NINE", ",", "rad", "=", "2", ")", "EOF"])]
        seen = set()
        ms = z3.Solver()
        ms.set("timeout", 5000)
        for sent in seeds:
            body = sent[:-1]        # keep EOF last
            cands = set()
            for i in range(len(body) + 1):
                for ch in alphabet:
                    cands.add(body[:i] + ch + body[i:])
                if i < len(body):
                    cands.add(body[:i] + body[i + 1:])
                    for ch in alphabet:
                        cands.add(body[:i] + ch + body[i + 1:])
                if i + 1 < len(body):
                    cands.add(body[:i] + body[i + 1] + body[i] + body[i + 2:])
            # characters outside the token alphabet (blank, control characters, unnamed/private-use code points,
            # look-alikes): every such string must be rejected with the parser's own exception type
            base_text = voc.text(sent)
            for ch in (" ", "\n", "\t", "\r", "\x00", "\x85", "\ue000", "\u2212", "\u00e9", "0", "x", "\U0001F600"):
                for i in sorted({0, 1, len(base_text) // 2, len(base_text) - 1, len(base_text)}):
                    variant = base_text[:i] + ch + base_text[i:]
                    diff = semantic_differential(variant)
                    n_diff += 1
                    if diff is not None and len(sem_fail) < 5:
                        sem_fail.append((variant, diff))
            for cnd in sorted(cands):
                full = cnd + sent[-1]
                if full in seen:
                    continue
                seen.add(full)
                ms.push()
                ms.add(z3.InRe(z3.StringVal(full), R["tucan"]))
                member = ms.check()
                ms.pop()
                if member == z3.unknown:
                    continue
                n_edit += 1
                text = voc.text(full)
                for variant in (text, voc.text(full, gt9="27"), voc.text(full, gt9="100")):
                    diff = semantic_differential(variant)
                    n_diff += 1
                    if diff is not None and len(sem_fail) < 5:
                        sem_fail.append((variant, diff))
                real = real_syntax_ok(text)
                if real != (member == z3.sat):
                    # token text boundaries can merge under the lexer (e.g. '1' '1' -> GREATER_THAN_NINE): re-tokenise to tell
                    try:
                        toks = tucan_ref.tokenize(text)
                        retok = "".join(voc.char(v if k != "NUM" else (str(v) if v < 10 else "GREATER_THAN_NINE")) for k, v in toks) + sent[-1]
                    except tucan_ref.Reject:
                        retok = None
                    if retok == full:
                        disagreements.append(("edit", text, "model says member" if member == z3.sat else "model says non-member", "runtime accepts" if real else "runtime rejects"))
        solver_s += time.time() - t0
        obs.append({"name": "runtime/model-vs-antlr", "ok": True if not disagreements else None,
                    "detail": {"sentences_through_every_token": n_sent, "one_token_edits": n_edit, "disagreements": disagreements[:5],
                               "note": "solver-generated tests that our reading of the ATN matches what the ANTLR runtime does; a disagreement is inconclusive, never a TUCAN violation"}})
        if sem_fail:
            import json
            path = os.path.join(VERIF, "evidence", "replays", f"C10-edit-{abs(hash(sem_fail[0][0])) % 10**8}.json")
            os.makedirs(os.path.dirname(path), exist_ok=True)
            with open(path, "w") as f:
                json.dump({"property": "C10", "kind": "text", "text": sem_fail[0][0], "difference": sem_fail[0][1]}, f, indent=1)
        obs.append({"name": "edits/outcome-equals-reference", "ok": False if sem_fail else True,
                    "replay": path if sem_fail else None, "values": {"text": sem_fail[0][0]} if sem_fail else {},
                    "detail": {"strings": n_diff, "failures": sem_fail[:3],
                               "note": "every one-token insertion, deletion, replacement and transposition of the solver-generated sentences (GREATER_THAN_NINE rendered as 10, 27, 100), plus one character from outside the token alphabet (blank, newline, tab, NUL, U+0085, private-use, U+2212, 'é', '0', 'x', an emoji) at five positions: accept/reject, exception type and graph of the real graph_from_tucan equal REF-DECODER's; concrete differential run, reported as solver-seeded testing"}})
    return obs, {"solver_s": round(solver_s, 2), "parser_regex": pr.stats, "lexer_regex": lx.stats}

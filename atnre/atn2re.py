"""E3 — the ATN carried by the generated tucanParser/tucanLexer as a z3 regular expression
(per-rule state elimination, Brzozowski-McCluskey), DESIGN §3.3."""
from __future__ import annotations

import z3

BASE = 0x4E00          # one character per token type; EOF (-1) -> BASE - 1


def tok_char(t: int) -> str:
    return chr(BASE + t)


class RuleCycle(Exception):
    pass


class ReBuilder:
    """Regular expressions as z3 Re terms with light algebraic simplification."""

    def __init__(self):
        self.sort = z3.ReSort(z3.StringSort())
        self.EMPTY = None                         # the empty language is represented by None
        self.EPS = z3.Re(z3.StringVal(""))

    def lit(self, s):
        return z3.Re(z3.StringVal(s))

    def is_eps(self, r):
        return r is not None and r.eq(self.EPS)

    def union(self, a, b):
        if a is None:
            return b
        if b is None:
            return a
        if a.eq(b):
            return a
        return z3.Union(a, b)

    def concat(self, *rs):
        out = []
        for r in rs:
            if r is None:
                return None
            if not self.is_eps(r):
                out.append(r)
        if not out:
            return self.EPS
        if len(out) == 1:
            return out[0]
        return z3.Concat(*out)

    def star(self, r):
        if r is None or self.is_eps(r):
            return self.EPS
        return z3.Star(r)


def eliminate(rb: ReBuilder, edges, start, stop):
    """edges: {u: {v: Re}} over hashable states.  Returns the Re from start to stop."""
    states = set(edges)
    for u in list(edges):
        states.update(edges[u])
    for s in states:
        edges.setdefault(s, {})
    pred = {s: set() for s in states}
    for u in edges:
        for v in edges[u]:
            pred[v].add(u)
    todo = [s for s in states if s not in (start, stop)]
    while todo:
        q = min(todo, key=lambda s: (len(pred[s]) - (s in pred[s])) * (len(edges[s]) - (s in edges[s])))
        todo.remove(q)
        loop = rb.star(edges[q].get(q))
        ins = [u for u in pred[q] if u != q]
        outs = [v for v in edges[q] if v != q]
        for u in ins:
            a = edges[u].pop(q)
            for v in outs:
                r = rb.concat(a, loop, edges[q][v])
                edges[u][v] = rb.union(edges[u].get(v), r)
                pred[v].add(u)
        for v in outs:
            pred[v].discard(q)
        for u in ins:
            pass
        del edges[q]
        for s in pred:
            pred[s].discard(q)
    # two states left (or one)
    if start == stop:
        return rb.star(edges[start].get(start))
    a = edges[start].get(start)
    b = edges[start].get(stop)
    c = edges[stop].get(start)
    d = edges[stop].get(stop)
    if b is None:
        return None
    if c is None:
        return rb.concat(rb.star(a), b, rb.star(d))
    # general 2-state formula
    inner = rb.union(a, rb.concat(b, rb.star(d), c))
    return rb.concat(rb.star(inner), b, rb.star(d))


class ParserRegex:
    def __init__(self, atn, rb=None, sym_char=tok_char):
        self.atn = atn
        self.rb = rb or ReBuilder()
        self.memo = {}
        self.active = set()
        self.sym_char = sym_char
        self.stats = {"rules": 0, "states": 0}

    def set_re(self, interval_set):
        r = None
        for iv in interval_set.intervals:
            for t in range(iv.start, iv.stop):
                r = self.rb.union(r, self.rb.lit(self.sym_char(t)))
        return r

    def rule(self, r: int):
        if r in self.memo:
            return self.memo[r]
        if r in self.active:
            raise RuleCycle(r)
        self.active.add(r)
        from antlr4.atn.Transition import Transition
        atn, rb = self.atn, self.rb
        start = atn.ruleToStartState[r]
        stop = atn.ruleToStopState[r]
        edges = {}
        seen = set()
        work = [start]
        while work:
            s = work.pop()
            if s.stateNumber in seen:
                continue
            seen.add(s.stateNumber)
            edges.setdefault(s.stateNumber, {})
            if s is stop:
                continue
            for t in s.transitions:
                ty = t.serializationType
                if ty == Transition.EPSILON:
                    lab, tgt = rb.EPS, t.target
                elif ty == Transition.ATOM:
                    lab, tgt = rb.lit(self.sym_char(t.label_)), t.target
                elif ty == Transition.SET:
                    lab, tgt = self.set_re(t.label), t.target
                elif ty == Transition.RANGE:
                    lab, tgt = self.set_re(t.label), t.target
                elif ty == Transition.RULE:
                    lab, tgt = self.rule(t.ruleIndex), t.followState
                else:
                    raise NotImplementedError(f"transition type {ty} in rule {r}")
                d = edges[s.stateNumber]
                d[tgt.stateNumber] = rb.union(d.get(tgt.stateNumber), lab)
                work.append(tgt)
        self.stats["rules"] += 1
        self.stats["states"] += len(seen)
        res = eliminate(rb, edges, start.stateNumber, stop.stateNumber)
        self.active.discard(r)
        self.memo[r] = res
        return res
